"""Per-property and per-engine configuration of bin/check."""

H1_STUB = {
    "real": ["server/commitlog (instrumented mechanically: locks, channels, selects, goroutines, tickers are scheduling points)",
             "file system and mmap of the sandbox kernel (process-crash model)", "gommap",
             "natefinch/atomic v1.0.1 WriteFile: the original statements with crash points between temp-file creation, write and rename (fakes/atomicfile)"],
    "stub": ["goroutine scheduling (simrt, seeded)", "clock and timers (testing/synctest fake clock)"],
}

ENGINES = {
    "h1": {
        "package": "server/commitlog",
        "harness": "commitlog",
        "instrument": ["server/commitlog"],
        "fs": ["server/commitlog"],
        "replace": {"github.com/natefinch/atomic": "atomicfile"},
        "real_vs_stub": H1_STUB,
        "kind": "deterministic simulation of the real commitlog package (instrumented) on real files in one synctest bubble",
    },
}

H3_STUB = {
    "real": ["server (partition, replicator, metadata, fsm, api, cursors, groups, activity, failover, propagation; instrumented mechanically)",
             "server/commitlog (instrumented)", "server/telemetry (instrumented)", "server/protocol", "server/encryption (instrumented; its stores to shared memory and those of server/api.go are scheduling points)", "casbin", "raft-boltdb (log store of the Raft stub)", "file system of the sandbox kernel",
             "Server.Start / startAPIServer: the tree's own code minus TCP listener, gRPC Serve loop and signal handler (derived at build time by instr/derive.go)",
             "config parsing (NewConfig, YAML + environment) in C19"],
    "stub": ["NATS server + nats.go client: simulated bus with NATS subject, queue-group and per-connection FIFO semantics (fakes/natsgo)",
             "hashicorp/raft + nats-on-a-log: ordered-commit stub with one committed log, seeded apply lag, members that learn nothing new for seconds (late metadata), elections among members that reach a majority, snapshots with log compaction, restart from snapshot + replay (fakes/raft) - Raft itself is not under test",
             "HTTP transport (C19): recorder in place of http.DefaultTransport",
             "nuid: deterministic counter", "gRPC transport, TLS, signal delivery: bypassed (handlers called in-process)",
             "goroutine scheduling (simrt, seeded)", "clock and timers (testing/synctest fake clock)"],
}

ENGINES["h3"] = {
    "package": "server",
    "harness": "server",
    "instrument": ["server", "server/commitlog", "server/telemetry", "server/encryption"],
    # stores to shared memory are scheduling points here (the request path and the encryption handler, which
    # API and subscription goroutines share): races between plain memory accesses are explored in these files
    "mem": ["server/encryption", "server:api.go"],
    "derive_startsim": True,
    "extra_harness": [("server/commitlog", "commitlog")],
    "fs": ["server/commitlog"],
    "replace": {"github.com/nats-io/nats.go": "natsgo", "github.com/hashicorp/raft": "raft", "github.com/liftbridge-io/nats-on-a-log": "natslog", "github.com/nats-io/nuid": "nuid", "github.com/natefinch/atomic": "atomicfile"},
    "real_vs_stub": H3_STUB,
    "kind": "deterministic simulation of 1-4 real liftbridge servers over a simulated NATS bus and a Raft stub in one synctest bubble",
}

COMMON_ASSUME = [
    "Go runtime and testing/synctest behave as documented",
    "the instrumenter's rewrites preserve semantics up to scheduling (RWMutex writer preference is not reproduced)",
    "sampling: a clean batch is evidence, not proof",
]

PROPS = {
    "C01": {
        "engine": "h1",
        "level": "exploration",
        "budget": {"quick": 30, "thorough": 600},
        "runs_per_proc": 150,
        "technique": "deterministic simulation: seeded schedules over generated append/truncate/reopen/reader programs, reference-model oracle (slice of records, independent wire codec); in half of the programs simulated time also passes while tasks are runnable (5-40 per mille of the scheduling steps), so the log's own timers - the cleaner's tick with its age/size roll, the checkpoint loop - fire in the middle of appends, truncations, cleans and reads",
        "level_text": "seeded exploration: thousands of generated programs per run, each under one seeded interleaving of appender, live readers and the log's background loops; every read-back compared field by field with a slice model",
        "level_note": "trusted: Go runtime + testing/synctest, the instrumenter's semantic preservation, the harness model and independent codec; sampling, not enumeration",
        "rule": "programs of <=40 (thorough <=64) operations over append/message-set append/truncate/reopen/epoch/HW/live readers, generated from the run seed; "
                "one seeded schedule each; distinct = distinct event-log hash (every scheduling decision and every operation result enters the hash); "
                "non-trivial = >=3 distinct offsets read back, >=10 oracle evaluations and (a segment roll happened or >=3 mutating operations)",
        "assumptions": COMMON_ASSUME + ["truncation offsets are kept above the high watermark and live readers are cancelled before a truncation (the property does not define reads racing a truncation)"],
    },
}

PROPS["C05"] = {
    "engine": "h1",
    "level": "fault_enumeration",
    "budget": {"quick": 40, "thorough": 900},
    "runs_per_proc": 40,
    "technique": "deterministic simulation with crash injection: a process kill at an enumerated file-system effect boundary, reopen on the surviving directory, reference-model oracle on the recovered log, then the workload continues",
    "level_text": "for each sampled program a fault-free run counts the file-system effect boundaries of every operation (log write, index mmap copy, file create/truncate, rename, remove, checkpoint replace); the thorough tier crashes at every one of them (quick: 6 sampled per program), reopens and judges the recovered log against the model, then continues the program on it",
    "level_note": "process-crash model (the kernel keeps every completed write; no power loss, no torn writes); natefinch/atomic.WriteFile is replaced by a copy of its statements with crash points between temp-file creation, write and rename; programs are sampled",
    "rule": "one evaluation = one (program, crash point) execution; distinct = distinct event-log hash; non-trivial = the crash fired, the directory was reopened and the recovered log was judged with >=5 oracle evaluations on a non-empty history",
    "assumptions": COMMON_ASSUME + ["process-crash model as stated in the property", "for an interrupted clean only the newest segment's records are required to survive (C08/C09 judge cleaning precisely)"],
}

PROPS["C03"] = {
    "engine": "h1",
    "level": "exploration",
    "budget": {"quick": 30, "thorough": 600},
    "runs_per_proc": 150,
    "technique": "deterministic simulation: appender, two HW movers (a third of the moves go to the log end, some carry stale lower values), read-only toggler and committed readers as concurrently scheduled tasks with seeded preemption at every lock and wake-up; online invariants after every step plus bounded-liveness check at quiescence; in half of the programs simulated time also passes while tasks are runnable (5-40 per mille of the scheduling steps), so the log's own timers - the cleaner's tick with its age/size roll, the checkpoint loop - fire in the middle of appends, truncations, cleans and reads",
    "level_text": "seeded exploration of interleavings of the real commitlog code: HW monotonicity checked after every scheduling step, every delivery checked against the HW and the model at the moment it is handed out, and after the last append every reader must have received exactly [start..HW] within 120 simulated seconds (a lost wake-up shows up as a stuck reader)",
    "level_note": "preemption points are lock acquisitions, channel operations, selects, timers; memory races outside those are not explored",
    "rule": "programs of <=36 (thorough <=66) operations split over four concurrent tasks; distinct = distinct event-log hash; non-trivial = at least one committed reader received >=3 messages and at least one preemption changed the running task",
    "assumptions": COMMON_ASSUME + ["a committed reader created beyond the HW resumes at HW+1 as documented in newReaderCommitted (judged as such, see DESIGN.md C10 for the subscription-level consequence)"],
}

PROPS["C08"] = {
    "engine": "h1",
    "level": "exploration",
    "budget": {"quick": 40, "thorough": 600},
    "runs_per_proc": 100,
    "technique": "deterministic simulation: compaction (real Clean with 1/2/10 scan workers as scheduled tasks) interleaved with a concurrent appender/HW mover and live readers; survivor oracle computed from the statement; forward and reverse readers from every start offset compared with the survivor list; in half of the programs simulated time also passes while tasks are runnable (the checkpoint loop fires inside operations; the log's own cleaner tick is switched off, cleans are the harness's)",
    "level_text": "seeded exploration over key patterns (nil, empty, four keys), segment layouts, HW positions, repeated cleans, cleans racing appends and readers; after every clean the survivors are judged (must-survive set, nothing else removed than superseded keyed committed messages, content unchanged) and every start offset is read forwards and backwards, committed and uncommitted",
    "level_note": "when retention is also configured, removal of whole oldest segments is left to C09 and the C08 clauses apply above the first surviving offset",
    "rule": "programs of <=30 (thorough <=50) operations; distinct = distinct event-log hash; non-trivial = at least one clean removed at least one message and >=10 oracle evaluations",
    "assumptions": COMMON_ASSUME,
}

PROPS["C09"] = {
    "engine": "h1",
    "level": "exploration",
    "budget": {"quick": 30, "thorough": 600},
    "runs_per_proc": 60,
    "technique": "deterministic simulation on the fake clock: sampled segment layouts (counts, bytes, last-write times via clock jumps), limit triples enumerated around the layout's suffix sums and ages, repeated cleans, cleans racing an appender; expected number of removed segments computed from the statement; in half of the programs simulated time also passes while tasks are runnable (5-40 per mille of the scheduling steps), so the log's own timers - the cleaner's tick with its age/size roll, the checkpoint loop - fire in the middle of appends, truncations, cleans and reads",
    "level_text": "for every sampled layout a probing run records per-segment message counts, byte sizes and ages; limit values at, just below and just above every suffix sum / segment age are combined (quick: 12 sampled triples, thorough: all up to 400 per layout); after each clean the remaining segments must be exactly the suffix that the smallest sufficient removal leaves, and the log must read back from its new oldest offset",
    "level_note": "per-segment facts are derived from the harness model (independent encoder for byte sizes) and the segment base offsets; message timestamps are monotone",
    "rule": "one evaluation = one (layout program, limit triple) execution; distinct = distinct event-log hash; non-trivial = at least one clean was judged and >=5 oracle evaluations",
    "assumptions": COMMON_ASSUME + ["with a concurrent appender the clean may observe any prefix of the concurrent appends: the removed count must lie between what the log before and the log after require"],
}

H3_ASSUME = COMMON_ASSUME + ["the simulated bus keeps exactly core NATS guarantees (per-connection FIFO, at most once)", "the Raft stub commits in one global order; Raft itself is not under test", "API handlers are called in-process on the server's node (gRPC bypassed)"]

PROPS["C16"] = {
    "engine": "h3",
    "level": "exploration",
    "budget": {"quick": 40, "thorough": 600},
    "runs_per_proc": 60,
    "technique": "deterministic simulation of one real server: 2-8 publisher tasks race conditional publishes through the real API, NATS bus and partition message loop under seeded schedules; history checked with porcupine against a 'log length' register plus direct log read-back checks; the stream is paused now and then (the next publish resumes it) and a tenth of the publishes use ack policy NONE (refused on such a stream; a success without acknowledgement is judged against the log)",
    "level_text": "seeded exploration of publish interleavings (delivery order on the stream subject, preemption of the message loop, batching settings); every history is checked for linearizability against the model 'publish(e) succeeds at L iff e in {-1, L}', and the final log is read back: acknowledged values at their offsets, rejected values nowhere, at most one winner per expected offset, waived checks never rejected",
    "level_note": "single server, replication factor 1, no faults; histories with an unknown outcome (time-out) are not fed to the linearizability checker",
    "rule": "programs of <=28 (thorough <=44) publishes by 2-8 clients with expected offsets from {-1, current, stale, future}; distinct = distinct event-log hash; non-trivial = at least one accepted and one rejected publish among >=4",
    "assumptions": H3_ASSUME,
}

PROPS["C10"] = {
    "engine": "h3",
    "level": "exploration",
    "budget": {"quick": 45, "thorough": 600},
    "runs_per_proc": 40,
    "technique": "deterministic simulation of one real server: sampled log shapes (dense, many segments, compacted-sparse, retention-trimmed, empty, uncommitted tail, read-only) x subscription requests over start x stop x direction through the real Subscribe handler on the fake clock; expected deliveries computed from the documented positions",
    "level_text": "per sampled log 24 (thorough 160) requests are issued one after the other; for each the delivered sequence must equal the committed retained messages in the requested range, and the subscription must end with the documented status within 5 simulated seconds or keep waiting where asked to",
    "level_note": "reverse subscriptions combined with a stop position, and reverse from NEW_ONLY/TIMESTAMP, have no documented meaning and are counted as unspecified, not judged; the uncommitted tail is written through the partition's own commit log",
    "rule": "one evaluation = one log shape with its batch of requests; distinct = distinct event-log hash; non-trivial = >=3 requests judged",
    "assumptions": H3_ASSUME,
}

PROPS["C15"] = {
    "engine": "h3",
    "level": "exploration",
    "budget": {"quick": 45, "thorough": 600},
    "runs_per_proc": 40,
    "technique": "deterministic simulation of one real server with casbin authorisation enabled: generated policies (random subset of (resource, action) pairs for the restricted client), generated call sequences over every API method incl. streaming ones and requests with early side effects, policy rewrite + reload mid-run; state digest compared before/after every refused call; long-lived PublishAsync calls kept open across reloads; 6% of the programs switch authorisation on without model/policy (every call must be refused)",
    "level_text": "for every call the generated policy does not allow the check demands an error and an identical state digest (streams, paused/read-only flags, every partition's log and HW, the cursors stream, the authorised client's group subscription still open, nothing delivered to the restricted client) after the system settled",
    "level_note": "client identity is put into the context as authz.go does after TLS verification (TLS itself is bypassed); consumer-group methods have no documented action and are reported unclassified-by-docs; every method of client.APIServer is discovered by reflection and must be classified",
    "rule": "programs of 10-30 (thorough -60) API calls; distinct = distinct event-log hash; non-trivial = >=2 refused calls judged and >=1 allowed call",
    "assumptions": H3_ASSUME,
}

PROPS["C13"] = {
    "engine": "h3",
    "level": "exploration",
    "budget": {"quick": 40, "thorough": 600},
    "runs_per_proc": 40,
    "technique": "deterministic simulation of one real server: bursts of concurrent consumer-group subscribes (same and different consumer ids, epochs 1-3), client cancellations and self-ending subscriptions under seeded preemption, each followed by a quiescent point where a marker message must reach at most one group subscriber, then sequential older/equal/newer-epoch probes against the current subscriber",
    "level_text": "seeded exploration of the interleavings between Subscribe's check-and-replace, the replaced subscription's loop exit and its registry clean-up; observable oracle (who receives the next message) plus sequential probes for the epoch fence",
    "level_note": "activity is judged by message delivery at quiescent points, not by internal registry state",
    "rule": "programs of 1-4 (thorough -8) rounds of 2-7 concurrent operations; distinct = distinct event-log hash; non-trivial = >=2 accepted group subscriptions and >=1 marker round",
    "assumptions": H3_ASSUME,
}

PROPS["C17"] = {
    "engine": "h3",
    "level": "exploration",
    "budget": {"quick": 45, "thorough": 600},
    "runs_per_proc": 25,
    "technique": "deterministic simulation of one real server with a master key: values of sampled sizes are published to an encrypted stream and read back through the real Subscribe handler; stored-byte flip faults (record checksum recomputed) are enumerated over every byte position of sampled stored values, and the server is restarted under a different master key; encryption is asked for by the stream option or by the server-wide default",
    "level_text": "exploration over values (empty, 1 B ... 4 KiB, marker-carrying) with enumeration over byte positions: round trip equality, no plaintext marker in any segment file, and for every tampered byte / wrong key a status error - never data, never a crash",
    "level_note": "tampering is done in the segment file of the running server with the commit log's own record CRC fixed up (plain bit rot is caught earlier by that CRC and is not this property); byte positions are exhaustive for the sampled values and the sampled flip mask",
    "rule": "one evaluation = one program of 2-9 publishes, 1-3 tampered values (all byte positions) and optionally a wrong-key restart; distinct = distinct event-log hash; non-trivial = >=2 values round-tripped and (>=10 byte flips or a wrong-key restart)",
    "assumptions": H3_ASSUME,
}

PROPS["C11"] = {
    "engine": "h3",
    "level": "exploration",
    "budget": {"quick": 45, "thorough": 600},
    "runs_per_proc": 30,
    "technique": "deterministic simulation of one real server with the internal cursors stream: 2-6 client tasks issue SetCursor/FetchCursor on hot keys (unique, non-monotone values), flood the cursor cache, sleep across auto-pause and cleaner ticks on the fake clock, restart the server, crash it, or let it die inside a commit-log file operation; 30 of the flood's own (cold) cursors are fetched back; per-key histories checked with porcupine (nondeterministic register: a failed set may or may not have been stored); in a quarter of the programs simulated time passes while tasks are runnable during the fault phase (2-3 per mille of the steps): timers fire in the middle of the servers' operations",
    "level_text": "seeded exploration of interleavings between cursor writes, cache fills after a miss, compaction/segment rolls of the cursors partition, auto-pause/resume and server restarts; every key's history must be linearizable against a register with initial value -1",
    "level_note": "single server (a leader change of the cursors partition is exercised as restart of the only replica); histories are cut at 200 operations per key; an inconclusive porcupine run is counted, not reported",
    "rule": "programs of 8-48 (thorough -108) operations over 4 hot keys; distinct = distinct event-log hash; non-trivial = >=2 sets and >=2 successful fetches",
    "assumptions": H3_ASSUME,
}

PROPS["C14"] = {
    "engine": "h3",
    "level": "exploration",
    "budget": {"quick": 40, "thorough": 600},
    "runs_per_proc": 40,
    "technique": "deterministic simulation of one real server with a foreign NATS client injecting structured corruptions of real frames (header byte flips, truncation to every short length, every header-length value, CRC flag without/with wrong CRC, wrong type byte, garbage, other envelope types) on every subject the server subscribes to; independent envelope decoder as oracle for what the stream stores; publish envelopes with headers named like the two the server sets itself, an ack inbox and every ack policy: the stored origin (subject, reply) must be the real one",
    "level_text": "system-level half of the property: no NATS handler task may panic, the server keeps serving regular publishes at the expected offsets, and every frame that arrived on the stream subject is stored either as exactly the envelope it encodes (independent decoder + CRC-32C) or verbatim; the encode/decode round trip is checked for publish and ack envelopes",
    "level_note": "exhaustive coverage of all byte strings is NOT claimed (that half is a pure-function question outside this technique); frames with a header length below the fixed header are counted as undecided",
    "rule": "programs of 20-80 (thorough -300) foreign frames; distinct = distinct event-log hash; non-trivial = >=10 frames of which >=3 on the stream subject",
    "assumptions": H3_ASSUME,
}

H2_ASSUME = [
    "the state machine runs on never-started servers whose id is not a replica of any partition: apply-time side effects that need NATS (becoming leader/follower, group liveness timers) are not exercised here",
    "commit order is given: one committed sequence per run, every node applies exactly that sequence (what Raft guarantees); Raft itself is not under test",
    "a crash loses no file data (no disk-fault model in this engine): restart-stability is checked against scheduling and replay splits, not torn writes",
]

PROPS["C06"] = {
    "engine": "h3",
    "level": "exploration",
    "budget": {"quick": 45, "thorough": 600},
    "runs_per_proc": 40,
    "technique": "deterministic simulation of 2-3 metadata state machines (real Server.Apply/Snapshot/Restore/finishedRecovery over a real raft-boltdb store and a hand-driven Raft member) applying one committed sequence of generated valid operations; seeded scheduling of applies, of the goroutines apply starts, of snapshot Persist tasks running concurrently with later applies, and crash/restart from any persisted snapshot (or none) with any commit index known at the first replayed entry; final states compared with a reference node that applied everything live",
    "level_text": "seeded exploration over operation histories (create/delete/recreate, pause/resume, read-only, ISR shrink/expand, leader change, group create/join/leave/expire/coordinator change) x snapshot points x restart points x replay-range splits x schedules; oracle: metadata digest equal to the live reference, stream set equal to what the committed sequence leaves, marker messages of current stream incarnations survive restarts, no directory of a deleted stream remains",
    "level_note": "operations are generated against the reference node's state and filtered by the controller's own precondition functions, so only sequences a controller could commit are explored; stream-level resumeAll and broker load counters are not part of the compared state (the statement does not list them)",
    "rule": "programs of 8-38 (thorough -98) generated steps on 2-3 nodes; distinct = distinct event-log hash; non-trivial = >=5 committed operations",
    "assumptions": H2_ASSUME,
}

PROPS["C12"] = {
    "engine": "h3",
    "level": "exploration",
    "budget": {"quick": 45, "thorough": 600},
    "runs_per_proc": 40,
    "technique": "deterministic simulation of 2-3 metadata state machines (same engine as C06) applying one committed sequence of consumer-group operations: joins, leaves, expiries, coordinator changes, stream deletions and re-creations over <=4 members, 3 streams, 1-5 partitions, with overlapping subscriptions; seeded map-iteration order, apply schedules, snapshots and restarts; assignment oracle evaluated on every node whenever the cluster is settled; join requests that name a stream twice",
    "level_text": "seeded exploration over operation orders; oracle from the statement: every partition of every subscribed stream has exactly one owner who subscribed to it, nobody owns a partition of a stream they did not subscribe to (or that no longer exists), single-stream groups are balanced within one, and nodes with the same group epoch hand out identical assignments (including nodes rebuilt from a snapshot)",
    "level_note": "member expiry is exercised as the committed leave operation it results in; the liveness timers themselves need a coordinator that is a real server and are outside this engine; map ranges over string keys are visited in a seeded permutation so that order dependence shows",
    "rule": "programs of 8-38 (thorough -98) generated steps; distinct = distinct event-log hash; non-trivial = >=2 joins committed",
    "assumptions": H2_ASSUME,
}

H3C_ASSUME = H3_ASSUME + [
    "cluster runs: 2-3 real servers; Raft is the ordered-commit stub (elections, commit order, snapshots simulated; not hashicorp/raft); NATS is the simulated bus with per-connection FIFO, loss, delay and one-way cuts",
]

PROPS["C04"] = {
    "engine": "h3",
    "level": "exploration",
    "budget": {"quick": 60, "thorough": 900},
    "runs_per_proc": 25,
    "technique": "deterministic simulation of a 2-3 server cluster (real partition leader/follower/replicator/commit loops) with a publisher client sending enveloped messages of mixed ack policies, sizes and batch boundaries straight to the stream subject; faults: server crash/restart, servers dying inside a commit-log file operation, one- and two-way network cuts, message loss/delay, stalls, time passing across the lag/leader-timeout timers; every acknowledgement is examined by a bus tap at the instant it leaves the leader; in a quarter of the programs simulated time passes while tasks are runnable during the fault phase (2-3 per mille of the steps): timers fire in the middle of the servers' operations",
    "level_text": "seeded exploration of interleavings of publishes, follower fetches, ISR shrink/expand and commit checks under faults; oracle at the ack instant: ALL => every member of the leader's in-sync set holds exactly that message at that offset and the set has the minimum size; LEADER => the leader holds it; NONE => never positively acked; offset/correlation id/policy belong to the message; oversized or wrong-expected-offset messages are nacked and stored by nobody",
    "level_note": "in-sync members that are down at the ack instant are not inspected; negative acks for NONE-policy messages are not judged (the statement leaves it open)",
    "rule": "programs of 6-29 (thorough -75) operations on 2-3 servers, RF 1-3, min ISR 1-RF, batch sizes 1-1024; distinct = distinct event-log hash; non-trivial = >=3 messages published and >=1 ack observed",
    "assumptions": H3C_ASSUME,
}

PROPS["C02"] = {
    "engine": "h3",
    "level": "exploration",
    "budget": {"quick": 90, "thorough": 900},
    "runs_per_proc": 25,
    "technique": "deterministic simulation of a 2-5 server cluster (real leader/follower/replicator/commit loops, real epoch-based log reconciliation, real controller failover logic over the Raft stub) with a publisher client; faults: leader and follower crash/restart (repeated), one- and two-way network cuts, message loss/delay, stalled (slow) leaders and followers, servers dying inside a commit-log file operation (log write, index write, rename, checkpoint replace) and again right after a restart, time passing across the lag/leader-timeout timers; 40% of the programs are generated failover chains (lagging follower, isolated leader with an uncommitted tail, leader crash, election, catch-up across the epoch boundary, re-election, deposed leaders rejoining); replica logs are compared offset by offset at every operation boundary and after a convergence period; further generated scenario families: two-replica leadership ping-pong (partition, crash or stall of the leader, empty epochs, uncommitted tails, publishes appended one by one), five-server chains in which a replica misses a whole epoch; in a quarter of the programs simulated time passes while tasks are runnable during the fault phase (2-3 per mille of the steps): timers fire in the middle of the servers' operations",
    "level_text": "seeded exploration of interleavings of publish, follower fetch, commit, leader crash, election from the in-sync set, follower restart with epoch-based truncation and ISR shrink/expand, including repeated failovers; oracle: pairwise equality of replicas at every offset both hold at or below both high watermarks; every ALL-acknowledged message is on every later leader at its offset; after convergence on every in-sync replica",
    "level_note": "acks from a server that no longer leads at the ack instant are not counted as commits; Raft is the ordered-commit stub, so metadata-level split brain is not explored",
    "rule": "programs of 6-29 (thorough -75) operations on 2-5 servers; distinct = distinct event-log hash; non-trivial = >=3 messages published and >=1 committed",
    "assumptions": H3C_ASSUME,
}

PROPS["C07"] = {
    "engine": "h3",
    "level": "exploration",
    "budget": {"quick": 45, "thorough": 600},
    "runs_per_proc": 40,
    "technique": "deterministic simulation of one real server as controller of a partition whose 2-5 replicas exist only in the metadata: the harness issues leader reports from in-sync followers, out-of-sync replicas, the leader itself and strangers, ISR shrinks/expansions with current or stale (leader, epoch) pairs, sleeps placed just before/after the failover timeout on the fake clock, and controller leadership losses; after every operation the partition state is judged against a reference of the statement's rules; Raft proposals that fail (nothing committed); 12% of the runs are cluster-mode runs: the C02 failover chains on real replicas, with the partition metadata of every server read under its lock at every operation boundary",
    "level_text": "seeded exploration of report/ISR-change histories around the witness timer; oracle: leader in ISR, ISR subset of replicas, epochs never decrease, one leader per leader epoch, a leader change only as the result of a report, to a member of the in-sync set other than the reported leader, with a new epoch, and only when more than half of the in-sync followers reported that (leader, epoch) in a chain of reports each within the timeout of the next; requests naming a stale leader or epoch are refused and change nothing; cluster mode: leader in ISR, ISR subset of replicas, epochs never decrease on a server, one leader per leader epoch across servers",
    "level_note": "the witness window is judged by the implementation's documented sliding rule (each report re-arms the timer); reports made before a controller leadership loss do not count afterwards",
    "rule": "programs of 8-37 (thorough -97) operations; distinct = distinct event-log hash; non-trivial = >=2 accepted reports; cluster-mode runs: non-trivial = >=6 metadata reads and >=2 leader epochs",
    "assumptions": H3_ASSUME,
}

PROPS["C18"] = {
    "engine": "h3",
    "level": "exploration",
    "budget": {"quick": 45, "thorough": 600},
    "runs_per_proc": 30,
    "technique": "deterministic simulation of one real server with the activity stream enabled: stream and consumer-group operations through the real API, activity publish failures (the activity stream itself made read-only or paused; deliveries on the activity subject dropped, so publishes time out and the dispatcher backs off), simulated time across the back-off schedule, Raft snapshots with log truncation, controller leadership loss, clean stop/crash/death inside a commit-log file operation and restart, the cursors stream configured or not; after a fault-free convergence period the __activity log is compared with the committed Raft log; in a quarter of the programs simulated time passes while tasks are runnable during the fault phase (2-3 per mille of the steps): timers fire in the middle of the servers' operations",
    "level_text": "seeded exploration of operation/fault histories; oracle: every committed stream/group operation has an event whose id is its Raft index and whose content matches it, first appearances are in commit order, redeliveries of an id are byte-identical, no event exists for an entry that has none; bounded liveness: 90 simulated seconds after the last fault the dispatcher has caught up",
    "level_note": "single server (controller change = leadership loss and re-election of the same server, or restart); the activity partition is led by the same server",
    "rule": "programs of 6-29 (thorough -75) operations; distinct = distinct event-log hash; non-trivial = >=3 API operations",
    "assumptions": H3_ASSUME,
}

PROPS["C19"] = {
    "engine": "h3",
    "level": "exploration",
    "budget": {"quick": 40, "thorough": 400},
    "runs_per_proc": 40,
    "technique": "deterministic simulation of one real server (real config parsing, real telemetry collector on the fake clock) whose HTTP transport is a recorder; the on/off wish reaches the server through each documented route (programmatic Config, YAML file, environment variable, file plus environment); streams, subjects, messages and NATS credentials with recognisable contents; simulated days pass, the server is stopped, crashed and restarted at seeded points; an explicit zero interval with telemetry off",
    "level_text": "seeded exploration over configuration routes x interval settings x lifecycle histories; oracle: disabled => no request at all over the whole run including shutdown; enabled => requests only to the telemetry host, JSON body with exactly the documented field set, a version-4 UUID instance id that is stable across restarts, no recognisable user string and no host name",
    "level_note": "the environment variable is set in the worker process for the duration of a run (runs in one worker are sequential); network access is not attempted (recorder)",
    "rule": "programs of 4-15 lifecycle operations; distinct = distinct event-log hash; every run is counted as non-trivial (each evaluates the request log)",
    "assumptions": H3_ASSUME,
}

NOT_APPLICABLE = [
    {"property_id": pid, "reason": "check not built yet in this round (engine under construction); see DESIGN.md section 9 build order"}
    for pid in ["C%02d" % i for i in range(1, 20)] if pid not in PROPS
]

# ---- fourth session: what was added to each check (appended to the technique text) ----
_S4 = {
    "C01": "scheduling points in front of sync/atomic operations; the leader-epoch history is judged on the live log after every operation; one live reader is cancelled while the others stay parked; the quiesce judges readers that wait (runnable laggards get 30 rounds)",
    "C02": "scheduling points in front of sync/atomic operations; views skip stalled servers, so publishes and elections happen during a leader's stall",
    "C03": "the appender cuts the uncommitted tail (segments replaced under parked and reading committed readers); reader creation racing a truncation",
    "C04": "views skip stalled servers",
    "C05": "crash points stratified by boundary name; the recovery itself is killed at its k-th file-system effect (and the attempt after that at its first); os.WriteFile is truncate-then-write with a crash point in between; point reads through the index and a committed read after every exact check; time skips in programs without cleaning; an appender with new leader epochs runs during a third of the cleans and the epoch history is judged after completed cleans ('every record lies in the epoch the history assigns to its offset')",
    "C06": "snapshots installed over live state, stale ISR operations and leader changes to out-of-ISR replicas in the committed sequence, Raft's own entries (no-op, configuration, barrier) between commands, stream configs and reserved stream names, settle-and-compare right after half of the restarts, resume-all in the digest (recorded finding, generated in 1 of 25 programs)",
    "C07": "rounds of 2-4 concurrent ReportLeader calls (at most one election per quorum), raw committed operations with stale generations, 1-3 partitions (the others must not change), recreate/pause/restart between reports, a forwarding non-controller server, seven stale variants, cluster-mode clauses (acting leader is the leader, one acting leader per epoch, epochs across restarts, state equals the committed operations)",
    "C08": "leader epochs change during programs, also under the concurrent appender; the epoch history is judged after every clean",
    "C09": "time skips reach the expanded programs (their parameters were dropped before); the oracle accounts for the clock moving inside the clean",
    "C10": "timestamps at message times -1/0/+1, an empty age-rolled newest segment, log changes under open subscriptions (read-only, clean, several subscriptions woken at once, stepwise high watermark through a stop position), statuses judged without deliveries, undefined position values, all delivered fields compared, reference built from the acknowledgements and checked against the stored log; three recorded findings generated in 1 of 120 programs each",
    "C11": "eight registers over id x stream x partition, 1 or 3 cursors partitions, background and 10-50 ms deadlines, publishes that fail while the server is up (pause, lost acks), evictions, offsets beyond 32 bits and 0, a final fetch of every key; 15% of programs on three servers with the cursors partition's leadership moved by isolation and stall; cause classification by the committed leader; two recorded findings generated in 1 of 20 cluster programs each",
    "C12": "assignments as served by GetConsumerGroupAssignments judged on every node (coordinator, epoch+-1, non-member), per-(group, epoch) agreement after every apply, restore and installed snapshot, member timers firing on state-machine coordinators, odd consumer and stream names, a directed single-stream family",
    "C13": "the partition's subscriber registry is inspected at every marker, rounds of concurrent subscribes judged against a sequential current-epoch register, subscriptions ended by the server (read-only, pause, delete), malformed subscribes with a newer epoch, two groups on one partition, group subscribe on a follower, Resume subscribes on a paused partition, epochs 0 and 2^40",
    "C14": "every decoder is handed every frame with its type byte as is and set to 0..16 (no panic; invalid header or another type is an error; a valid header decodes to exactly the payload's protobuf value; the replication response layout), round trips with other messages encoded in between, typed internal messages naming the server itself and the real stream, CreateStreamOp shapes, RaftJoinRequest",
    "C15": "half of the programs send every call through the real gRPC interceptors with identities from verified certificate chains (six no-identity shapes), the tree's own SIGHUP body (derived by the instrumenter), revoke/grant around uses, cursors in the state digest, the configuration-file route, request shapes (partition subsets, ack policies, deadlines, ReadISRReplica), directed sequences on paused streams, callers without policy entries",
    "C16": "every history is judged (refusals are no-ops, publishes without an answer are settled from the final log, else the non-deterministic register), PublishAsync sessions with correlation ids, pipelined consecutive expected offsets, small segments with retention and time skips, 1-3 partitions, a three-server variant, clean restarts under the publishers",
    "C17": "2-4 concurrent whole-partition subscriptions, restart with the same master key and pause followed by publishes, handler-level reads of every prefix and of sealed+extra bytes, master keys derived from the seed (16/32 bytes, differing in one byte), arbitrary byte values up to 70 KB, sampled tampering (all header and tag bytes), ALL policy, PublishAsync and bare NATS messages, two partitions or two encrypted streams, 12% of programs with three servers: follower reads, partition-leader failover, rejoin",
    "C18": "every documented event field compared (partition subsets, ResumeAll, Expired, two-stream joins), every event id in the stream judged, a quarter of the programs on three servers (controller isolated, stalled, crashed; forwarded calls), lost acknowledgements of activity publishes and failing proposals, Raft's own entries in the committed log, two groups with 2-5 s member time-outs",
    "C19": "request line and headers judged, documented fields pinned to what they document, file-versus-environment precedence and non-boolean environment values, per-incarnation on/off across restarts, instance id seeded / deleted / compared with a second installation, failing reports (transport errors, 5xx), Stop racing Start and silence after Stop; the horizon follows the program's sleeps (periodic reports are reached)",
}
for _k, _v in _S4.items():
    PROPS[_k]["technique"] += "; fourth session: " + _v

# ---- fifth session: what was added to each check (appended to the technique text) ----
_S5 = {
    "C02": "a follower misses a beat so that followers are unevenly caught up when the leader goes, the stale-follower family (the late-metadata fault is generated for C04 and C07 only, see the open observation in DESIGN.md 10.12); the recorded hw-fallback finding is recognised only for offsets above a fallback truncation that removed something",
    "C04": "40% of the programs are the C02 failover families (chains, ping-pong, stale follower) and a deposed-leader family in which the leader's stall begins the moment it answers a fetch with messages; late metadata, uneven followers; the ack observation is one instant (no optional scheduling point while the holders are read, torn observations are not judged); acks by a server the committed metadata name deposed are the recorded no-fencing finding",
    "C06": "a lagging node catches up while a client keeps asking it (shared engine with C12)",
    "C07": "cluster mode inherits late metadata from the C02 chains",
    "C11": "the configured number of cursors partitions changes across restarts, cluster programs read their own writes and half of them read the log on every fetch, two cursor ids whose keys collide under the partitioning hash",
    "C12": "assignments are asked for while a lagging node applies the committed operations (API goroutines next to the FSM goroutine)",
    "C15": "stores to shared memory in server/api.go are scheduling points; in 40% of the programs admin's reads run on other API goroutines next to the judged call; a stream on subj.foo.1 and PublishToSubject to it (a grant on subj.foo says nothing about it)",
    "C10": "a stop time on an empty log is judged by the one clause that holds under any reading (nothing stamped after the stop time is delivered)",
    "C19": "configuration files that name only the switch spell it flat (telemetry.enabled) in half of the programs",
    "C17": "master keys made of hexadecimal digits with neighbours that differ in the case of one letter; server/encryption is instrumented and its stores to shared memory are scheduling points (the one handler of a partition is shared by its subscription goroutines)",
}
for _k, _v in _S5.items():
    PROPS[_k]["technique"] += "; fifth session: " + _v
