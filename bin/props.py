"""Per-property and per-engine configuration of bin/check."""

H1_STUB = {
    "real": ["server/commitlog (instrumented mechanically: locks, channels, selects, goroutines, tickers are scheduling points)",
             "file system and mmap of the sandbox kernel (process-crash model)", "natefinch/atomic", "gommap"],
    "stub": ["goroutine scheduling (simrt, seeded)", "clock and timers (testing/synctest fake clock)"],
}

ENGINES = {
    "h1": {
        "package": "server/commitlog",
        "harness": "commitlog",
        "instrument": ["server/commitlog"],
        "fs": ["server/commitlog"],
        "replace": {},
        "real_vs_stub": H1_STUB,
        "kind": "deterministic simulation of the real commitlog package (instrumented) on real files in one synctest bubble",
    },
}

COMMON_ASSUME = [
    "Go runtime and testing/synctest behave as documented",
    "the instrumenter's rewrites preserve semantics up to scheduling (RWMutex writer preference is not reproduced)",
    "sampling: a clean batch is evidence, not proof",
]

PROPS = {
    "C01": {
        "engine": "h1",
        "level": "exploration",
        "budget": {"quick": 30, "thorough": 600},
        "runs_per_proc": 150,
        "technique": "deterministic simulation: seeded schedules over generated append/truncate/reopen/reader programs, reference-model oracle (slice of records, independent wire codec)",
        "level_text": "seeded exploration: thousands of generated programs per run, each under one seeded interleaving of appender, live readers and the log's background loops; every read-back compared field by field with a slice model",
        "level_note": "trusted: Go runtime + testing/synctest, the instrumenter's semantic preservation, the harness model and independent codec; sampling, not enumeration",
        "rule": "programs of <=40 (thorough <=64) operations over append/message-set append/truncate/reopen/epoch/HW/live readers, generated from the run seed; "
                "one seeded schedule each; distinct = distinct event-log hash (every scheduling decision and every operation result enters the hash); "
                "non-trivial = >=3 distinct offsets read back, >=10 oracle evaluations and (a segment roll happened or >=3 mutating operations)",
        "assumptions": COMMON_ASSUME + ["truncation offsets are kept above the high watermark and live readers are cancelled before a truncation (the property does not define reads racing a truncation)"],
    },
}

NOT_APPLICABLE = [
    {"property_id": pid, "reason": "check not built yet in this round (engine under construction); see DESIGN.md section 9 build order"}
    for pid in ["C%02d" % i for i in range(1, 20)] if pid not in PROPS
]
