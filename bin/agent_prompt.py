import json,sys
pid=sys.argv[1]
n=sys.argv[2] if len(sys.argv)>2 else "2"
tag=sys.argv[3] if len(sys.argv)>3 else ""
p=[json.loads(l) for l in open('/verif/properties.jsonl') if json.loads(l)['id']==pid][0]
print(f"""You are helping evaluate a verification effort by writing realistic *bugs*. You work ONLY inside the git worktree /tmp/wt-{pid}{tag} (a checkout of the Go project liftbridge-io/liftbridge: a Kafka-style replicated message log). Do not read or write anything under /verif or /repo. Do not commit anything.

Environment: no network. For every go command use: `export GOFLAGS=-mod=mod GOPROXY=off` (and do NOT set GOSUMDB or GOTOOLCHAIN). Example: `cd /tmp/wt-{pid}{tag} && GOFLAGS=-mod=mod GOPROXY=off go test -count=1 -vet=off ./server/commitlog/`. The `./server` package test suite is slow (10-20 minutes) and binds fixed ports: ALWAYS run it through the wrapper `/tmp/run-server-tests.sh /tmp/wt-{pid}{tag}` (it gives the run a private network namespace and may wait for a free slot; extra `go test` arguments such as `-run 'TestX|TestY'` may follow the directory). While developing a candidate run only the tests related to the code you touch (`-run` with a regular expression); run the full suite at most once per candidate change, at the end; a handful of its tests are timing-sensitive under load ("No metadata leader found", "raft operation timed out"): re-run just those by name before concluding a mutant breaks the suite; `./server/commitlog`, `./server/protocol`, `./server/encryption` are fast.

Here is a semantic property of the system that should always hold:

ID: {p['id']} — {p['title']}
Statement: {p['statement']}
Quantifier: {p['quantifier']['text']}
Relevant files: {', '.join(p['anchors']['files'])}
Mechanisms it rests on: {json.dumps(p['anchors']['mechanism'], indent=1)}

TASK: produce {n} different, independent source changes ("mutants") to the non-test Go code of the project, each of which BREAKS this property while (a) still compiling, and (b) still passing the project's existing test suite unchanged (at minimum all tests of every package you touched; for changes under server/*.go run the ./server suite once). Each mutant must look like a plausible mistake or over-eager optimisation a developer could make, and must need something SPECIFIC to manifest: a particular interleaving of goroutines, a crash or fault at a particular point, a multi-step sequence of operations, an unusual input/configuration, or two cooperating sites that each look fine alone. Do NOT produce changes that ordinary use would expose at once (e.g. that break every append), and do not touch test files, and do not add new exported APIs. Keep each mutant small (a few lines).

For each mutant k (1..{n}) write these files into /tmp/mutants-{pid}{tag}/m<k>/ :
  - patch.diff : `git diff` of the change against the worktree HEAD (must apply cleanly with `git apply` on a clean checkout of HEAD)
  - demo_test.go : a Go test file (package of your choice inside the project, state in meta.json where it must be placed, e.g. server/commitlog/zz_demo_test.go) containing a test that FAILS with the mutant applied and PASSES on the unmodified code. It may use internal (unexported) identifiers of that package. It must be deterministic enough to fail reliably (>= 9 of 10 runs) with the mutant.
  - meta.json : {{"property": "{pid}", "summary": "...what the change does...", "needs": "...what is needed for the violation to manifest...", "demo_path": "path where demo_test.go must be copied inside the repo", "demo_run": "go test command to run the demo", "ran": ["commands you ran and their outcome: demo fails with mutant, demo passes without, existing tests pass with mutant"]}}

Work one mutant at a time: make the change, build, run the existing tests of the touched packages, write and run the demo (with and without the change: use `git diff > /tmp/mutants-{pid}{tag}/cur.diff` then `git apply -R /tmp/mutants-{pid}{tag}/cur.diff` and `git apply /tmp/mutants-{pid}{tag}/cur.diff`; NEVER use `git stash`, its stack is shared between worktrees), save the files, then `git checkout -- . && git clean -fdq` to restore the worktree before the next mutant. Leave the worktree clean at the end. Your final message should list the mutants (one line each) and confirm the checks you ran.""")
