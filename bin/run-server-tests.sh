#!/bin/bash
# usage: run-server-tests.sh <worktree> [extra go test args...]
# The ./server test-suite starts a NATS server on the fixed port 4222, so only one
# instance may run on this machine at a time: this wrapper serialises them.
wt="$1"; shift
cd "$wt" || exit 2
export GOFLAGS=-mod=mod GOPROXY=off
exec flock /tmp/server-tests.lock go test -count=1 -vet=off -timeout 25m "$@" ./server
