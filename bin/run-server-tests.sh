#!/bin/bash
# usage: run-server-tests.sh <worktree> [extra go test args...]
# The ./server test-suite starts a NATS server on the fixed port 4222. Each run gets
# its own network namespace (own loopback), so several suites can run side by side;
# at most 4 at a time (slots are lock files) to keep the timing-sensitive tests honest.
wt="$1"; shift
cd "$wt" || exit 2
export GOFLAGS=-mod=mod GOPROXY=off
while :; do
  for i in 1 2 3 4; do
    exec 9>/tmp/server-tests.slot$i
    if flock -n 9; then
      exec unshare -n sh -c 'ip link set lo up; exec go test -count=1 -vet=off -timeout 25m "$@" ./server' sh "$@"
    fi
  done
  sleep 5
done
