package simrt

import (
	"fmt"
	"sync"
	"testing"
	"time"
)

// a little system: producers, a consumer with select, a ticker loop, a mutex-protected counter
func scenario(s *Sim, out *[]string) {
	var mu sync.Mutex
	var log []string
	add := func(f string, a ...any) {
		Lock(&mu)
		log = append(log, fmt.Sprintf(f, a...))
		Unlock(&mu)
	}
	ch := make(chan int)
	done := make(chan struct{})
	var wg sync.WaitGroup
	for p := 0; p < 3; p++ {
		p := p
		wg.Add(1)
		Go(func() {
			defer wg.Done()
			for i := 0; i < 4; i++ {
				SendY(ch, p*10+i)
				add("sent %d", p*10+i)
				if i == 2 {
					Sleep(time.Duration(p+1) * time.Second)
				}
			}
		})
	}
	Go(func() {
		tk := NewTicker(1500 * time.Millisecond)
		defer tk.Stop()
		n := 0
		for {
			h0 := Recv(ch)
			h1 := Recv(tk.C)
			h2 := Recv(done)
			switch Select(false, h0, h1, h2) {
			case 0:
				add("got %d", h0.V())
				n++
			case 1:
				add("tick at %v", s.Now())
			case 2:
				add("consumer done n=%d", n)
				return
			}
		}
	})
	WGWait(&wg)
	add("producers done at %v", s.Now())
	close(done)
	Sleep(time.Second)
	Lock(&mu)
	*out = log
	Unlock(&mu)
}

func runOnce(t *testing.T, dec *Decider) ([]string, *Sim) {
	var out []string
	var s *Sim
	p := RunBubble(t, func() {
		s = New(dec, Config{StickyPct: 50, LockYield: 100})
		s.Run(func() { scenario(s, &out) })
	})
	if p != "" {
		t.Fatalf("bubble problem: %s", p)
	}
	return out, s
}

func TestDeterminismAndReplay(t *testing.T) {
	distinct := map[string]bool{}
	for seed := uint64(1); seed <= 30; seed++ {
		a, sa := runOnce(t, NewDecider(seed))
		b, sb := runOnce(t, NewDecider(seed))
		if fmt.Sprint(a) != fmt.Sprint(b) || sa.Hash() != sb.Hash() {
			t.Fatalf("seed %d: not deterministic\n%v\n%v", seed, a, b)
		}
		c, sc := runOnce(t, NewReplay(sa.Dec.Trace))
		if fmt.Sprint(a) != fmt.Sprint(c) || sa.Hash() != sc.Hash() {
			t.Fatalf("seed %d: replay differs\n%v\n%v", seed, a, c)
		}
		if len(a) < 20 {
			t.Fatalf("seed %d: short log %v", seed, a)
		}
		distinct[fmt.Sprint(a)] = true
	}
	if len(distinct) < 10 {
		t.Fatalf("only %d distinct interleavings over 30 seeds", len(distinct))
	}
	t.Logf("distinct=%d", len(distinct))
}

func TestCrashAndWaitUntil(t *testing.T) {
	var s *Sim
	var got []int
	p := RunBubble(t, func() {
		s = New(NewDecider(7), Config{StickyPct: 30, LockYield: 100})
		s.Run(func() {
			var mu sync.Mutex
			n := 0
			s.GoNode(1, "victim", func() {
				for {
					Lock(&mu)
					n++
					Unlock(&mu)
					Sleep(time.Millisecond)
				}
			})
			WaitUntil("n>=5", func() bool { return n >= 5 })
			s.Crash(1)
			v := n
			Sleep(time.Second)
			got = []int{v, n}
		})
	})
	if p != "" {
		t.Fatal(p)
	}
	if len(got) != 2 || got[0] != got[1] || got[0] < 5 {
		t.Fatalf("crash did not freeze the victim: %v", got)
	}
}
