package simrt

// Decider is the single source of every nondeterministic choice of a run.
// In exploration mode values come from a splitmix64 PRNG and are recorded; in
// replay mode they come from a recorded trace (value mod n; 0 once exhausted).
type Decider struct {
	state   uint64
	Trace   []uint32
	replay  []uint32
	pos     int
	Replay  bool
	Record  bool
	Draws   int
	Exhaust int // draws answered with 0 because the replay trace was exhausted
}

// NewDecider returns an exploring decider seeded with seed.
func NewDecider(seed uint64) *Decider {
	return &Decider{state: seed*0x9E3779B97F4A7C15 + 0x1234567, Record: true}
}

// NewReplay returns a decider that replays trace.
func NewReplay(trace []uint32) *Decider {
	return &Decider{replay: trace, Replay: true, Record: true}
}

func (d *Decider) next() uint64 {
	d.state += 0x9E3779B97F4A7C15
	z := d.state
	z = (z ^ (z >> 30)) * 0xBF58476D1CE4E5B9
	z = (z ^ (z >> 27)) * 0x94D049BB133111EB
	return z ^ (z >> 31)
}

// Choose returns a value in [0,n). n<=1 returns 0 without consuming a decision.
func (d *Decider) Choose(n int) int {
	if n <= 1 {
		return 0
	}
	d.Draws++
	var v int
	if d.Replay {
		if d.pos < len(d.replay) {
			v = int(d.replay[d.pos]) % n
		} else {
			d.Exhaust++
		}
		d.pos++
	} else {
		v = int(d.next() % uint64(n))
	}
	if d.Record {
		d.Trace = append(d.Trace, uint32(v))
	}
	return v
}

// Rand is a plain seeded generator for harness-side generation (programs,
// payloads) that is not part of the schedule trace.
type Rand struct{ d Decider }

// NewRand returns a generator seeded with seed.
func NewRand(seed uint64) *Rand {
	return &Rand{d: Decider{state: seed*0x9E3779B97F4A7C15 + 0x7654321}}
}

// Intn returns a value in [0,n).
func (r *Rand) Intn(n int) int {
	if n <= 1 {
		return 0
	}
	return int(r.d.next() % uint64(n))
}

// Uint64 returns 64 random bits.
func (r *Rand) Uint64() uint64 { return r.d.next() }

// Pct returns true with probability p/100.
func (r *Rand) Pct(p int) bool { return r.Intn(100) < p }
