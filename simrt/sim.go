// Package simrt is the deterministic-simulation runtime: a one-task-at-a-time
// scheduler for real goroutines inside one testing/synctest bubble, driven by a
// seeded (or replayed) decision stream.
//
// Instrumented liftbridge code calls Lock/Unlock/Recv2/SendY/Select/Go/... instead
// of the bare Go constructs (see /verif/instr). With no active Sim every entry
// point degrades to the bare construct (pass-through), so the same instrumented
// package also runs outside a simulation.
package simrt

import (
	"fmt"
	"hash/fnv"
	"os"
	"runtime/debug"
	"sort"
	"strconv"
	"strings"
	"sync"
	"sync/atomic"
	"testing/synctest"
	"time"
)

// task states
const (
	stStarting = iota
	stRunning
	stParked   // at a gate, runnable
	stLockWait // at a gate, waiting for a mutex another task holds
	stWaiting  // at a gate, waiting for an explicit Wake (simrt-native condition)
	stBlocked  // inside a real blocking operation (channel, timer, WaitGroup)
	stDone
)

var stateNames = []string{"starting", "running", "parked", "lockwait", "waiting", "blocked", "done"}

type killedT struct{}

// Killed is the panic value used to unwind tasks at the end of a run.
var killed = killedT{}

// IsKilled reports whether a recovered panic value is the end-of-run unwind.
func IsKilled(v any) bool { _, ok := v.(killedT); return ok }

// Task is one simulated thread of control.
type Task struct {
	declined int // consecutive yields declined without parking
	ID       int64
	Name     string
	Node     int
	s        *Sim
	gate     chan struct{}
	state    int32
	why      string
	dead     bool // node crashed: never released again
	lockK    any
	gid      int64
	quiet    int
	cond     func() bool // stWaiting: runnable again once cond() is true (evaluated on the driver)
}

// PanicInfo records a panic that escaped a task.
type PanicInfo struct {
	Task  string
	Node  int
	Value string
	Stack string
	Step  int
}

// Event is a simulator-owned occurrence (message delivery, raft apply, …) that
// competes with runnable tasks for the next scheduling step. Fire runs on the
// driver goroutine: it must not block and must not run system-under-test code.
type Event struct {
	Seq       int64
	Label     string
	Node      int // node whose stall/crash gates the event (-1: none)
	NotBefore time.Time
	Fire      func()
	Ready     func() bool // optional extra readiness test (e.g. FIFO head)
	cancelled bool
}

// Config tunes one run.
type Config struct {
	MaxSteps   int           // hard cap on scheduling steps (0: 1e6)
	Horizon    time.Duration // simulated time after which the run is stopped (0: 1h)
	StickyPct  int           // probability (0..100) to keep running the same task at a yield
	LockYield  int           // percentage (0..100) of lock acquisitions that are scheduling points
	Verbose    bool          // keep a textual event log
	SpinSteps  int           // consecutive non-idle steps after which the clock is advanced by force (0: 3000)
	TraceSteps bool          // log every scheduling step (with Verbose)
	Profile    bool          // count parks by reason into Counters
	NoPreempt  bool          // never preempt at lock yields (operation-granularity scheduling)
	MapSeed    uint64        // non-zero: ranges over maps visit the keys in a permutation derived from this value (0: ascending)
	// TimeSkipPerMille > 0: at a scheduling step with runnable tasks the driver now and then (with this
	// probability) lets simulated time pass up to the next timer (at most TimeSkipMax, default 30 s; in total
	// at most TimeSkipBudget, default 10 min) before anybody continues: the runnable tasks are "slow", and
	// timer-driven work (tickers, time-outs, AfterFunc callbacks) lands in the middle of their operations.
	TimeSkipPerMille int
	TimeSkipMax      time.Duration
	TimeSkipBudget   time.Duration
}

// Sim is one simulated execution.
type Sim struct {
	mu             sync.Mutex
	byGid          map[int64]*Task
	all            []*Task
	nextID         int64
	cur            *Task
	last           *Task
	wake           chan struct{}
	noSkip         bool
	skipped        time.Duration
	TimeSkips      int
	kill           chan struct{}
	killedF        atomic.Bool
	Dec            *Decider
	cfg            Config
	mapRanges      uint64
	Steps          int
	Preempt        int // steps at which a different task than the previous one was chosen although it was runnable
	StepLimitHit   bool
	HorizonHit     bool
	Deadlock       bool
	lockWaiters    map[any][]*Task
	events         []*Event
	evSeq          int64
	stalled        map[int]time.Time
	crashed        map[int]bool
	Panics         []PanicInfo
	OnPanic        func(p PanicInfo) // called on the panicking goroutine, before the node is marked crashed
	StepHook       func()            // called on the driver before each choice (fault injection)
	AfterStep      func()            // called on the driver after each step settles (online invariants)
	stopReq        atomic.Bool
	finished       atomic.Bool
	tickers        []*time.Ticker
	Idles          int
	inDriver       bool
	Hazards        []string // un-instrumented blocking detected (tooling trouble, not a verdict)
	ForcedAdvances int
	elapsed        time.Duration
	start          time.Time
	h              uint64
	logBuf         []string
	Counters       map[string]int
	fsHits         int
	CrashAtFS      int // crash the calling node at the N-th FS point (1-based; 0: never)
	FSCrashed      string
	FSNames        []string
	RecordFS       bool
	nodeFS         map[int]int               // node -> FS points left until that node crashes (cluster engine)
	OnNodeFSCrash  func(node int, at string) // bookkeeping of the harness, called on the crashing task before it dies
}

var active atomic.Pointer[Sim]

// progressEvery (VERIF_PROGRESS=n) prints a line to stderr every n scheduling steps: a debugging aid.
var progressEvery = func() int { n, _ := strconv.Atoi(os.Getenv("VERIF_PROGRESS")); return n }()

// Active returns the running simulation or nil.
func Active() *Sim { return active.Load() }

// New creates a simulation. It must be created and run inside a synctest bubble.
func New(dec *Decider, cfg Config) *Sim {
	if cfg.TimeSkipMax == 0 {
		cfg.TimeSkipMax = 30 * time.Second
	}
	if cfg.TimeSkipBudget == 0 {
		cfg.TimeSkipBudget = 10 * time.Minute
	}
	if cfg.MaxSteps == 0 {
		cfg.MaxSteps = 1000000
	}
	if cfg.Horizon == 0 {
		cfg.Horizon = time.Hour
	}
	s := &Sim{
		byGid:       map[int64]*Task{},
		wake:        make(chan struct{}, 1),
		kill:        make(chan struct{}),
		Dec:         dec,
		cfg:         cfg,
		lockWaiters: map[any][]*Task{},
		stalled:     map[int]time.Time{},
		crashed:     map[int]bool{},
		Counters:    map[string]int{},
		h:           14695981039346656037,
	}
	return s
}

// Cur returns the running task, or nil when no simulation is active. Exactly one
// task executes system-under-test code at any time (the one the driver released
// last), so the caller of any instrumented construct is that task; tasks woken
// inside a blocking wrapper use the identity they captured before blocking.
func Cur() *Task {
	s := active.Load()
	if s == nil || s.inDriver {
		// (code the driver itself runs between steps - wait conditions, hooks - is not a task:
		// instrumented constructs degrade to the bare Go constructs there)
		return nil
	}
	return s.cur
}

func (s *Sim) poke() {
	select {
	case s.wake <- struct{}{}:
	default:
	}
}

func (s *Sim) mix(v uint64) {
	s.h ^= v
	s.h *= 1099511628211
}

// Hash is the running digest of every scheduling decision and logged event.
func (s *Sim) Hash() uint64 { return s.h }

// Logf records an observable event: it always enters the event-log hash and is
// kept as text when Verbose. It never draws from the decision stream.
func (s *Sim) Logf(format string, a ...any) {
	line := fmt.Sprintf(format, a...)
	hh := fnv.New64a()
	hh.Write([]byte(line))
	s.mu.Lock()
	s.mix(hh.Sum64())
	if s.cfg.Verbose {
		s.logBuf = append(s.logBuf, fmt.Sprintf("%6d %8.3fs %s", s.Steps, s.Now().Seconds(), line))
	}
	s.mu.Unlock()
}

// Log returns the textual event log (Verbose only).
func (s *Sim) Log() []string { return s.logBuf }

// Count bumps a named probe / fault counter.
func (s *Sim) Count(name string) {
	s.mu.Lock()
	s.Counters[name]++
	s.mu.Unlock()
}

// Now is the simulated time since the start of the run.
func (s *Sim) Now() time.Duration {
	if s.finished.Load() {
		return s.elapsed
	}
	return time.Since(s.start)
}

// Choose draws from the decision stream. Only the running task or the driver may call it.
func (s *Sim) Choose(n int, label string) int {
	return s.Dec.Choose(n)
}

// Quiet switches optional scheduling points (lock acquisitions, non-blocking
// channel operations) off and on again for the running task: harness-side
// verification reads do not need to be interleaved. Calls nest.
func (s *Sim) Quiet(on bool) {
	t := s.cur
	if t == nil {
		return
	}
	if on {
		t.quiet++
	} else {
		t.quiet--
	}
}

// Stop asks the driver to end the run after the current step.
func (s *Sim) Stop() { s.stopReq.Store(true); s.poke() }

func (s *Sim) newTask(name string, node int) *Task {
	s.mu.Lock()
	s.nextID++
	t := &Task{ID: s.nextID << 10, Name: name, Node: node, s: s, gate: make(chan struct{}, 1), state: stStarting, dead: s.crashed[node]}
	s.all = append(s.all, t)
	s.mu.Unlock()
	return t
}

func (t *Task) bind() {}

func (t *Task) unbind() {
	t.s.mu.Lock()
	t.state = stDone
	t.s.mu.Unlock()
	t.s.poke()
}

func (t *Task) setState(st int32, why string) {
	t.s.mu.Lock()
	t.state = st
	t.why = why
	if t.s.cfg.Profile {
		t.s.Counters["park."+why]++
	}
	t.s.mu.Unlock()
}

// park hands control back to the driver and waits to be released.
func (t *Task) parkAs(st int32, why string) {
	s := t.s
	if s.killedF.Load() {
		panic(killed)
	}
	t.setState(st, why)
	if s.finished.Load() {
		select {} // the run is over: stay parked forever
	}
	s.poke()
	select {
	case <-t.gate:
	case <-s.kill:
		panic(killed)
	}
}

func (t *Task) run(f func()) {
	defer t.unbind()
	defer func() {
		if r := recover(); r != nil {
			if IsKilled(r) {
				return
			}
			s := t.s
			if s.killedF.Load() {
				return // secondary panics while unwinding at end of run are not findings
			}
			p := PanicInfo{Task: t.Name, Node: t.Node, Value: fmt.Sprint(r), Stack: string(debug.Stack()), Step: s.Steps}
			s.mu.Lock()
			s.Panics = append(s.Panics, p)
			s.mu.Unlock()
			if s.OnPanic != nil {
				s.OnPanic(p)
			}
			s.markCrashed(t.Node)
		}
	}()
	t.parkAs(stParked, "start")
	f()
}

// Go starts f as a new task on the caller's node.
func Go(f func()) {
	t := Cur()
	if t == nil {
		go f()
		return
	}
	t.s.GoNode(t.Node, "", f)
}

// GoNode starts f as a new task belonging to node.
func (s *Sim) GoNode(node int, name string, f func()) *Task {
	nt := s.newTask(name, node)
	if name == "" {
		nt.Name = fmt.Sprintf("t%d", nt.ID>>10)
	}
	go func() {
		nt.bind()
		nt.run(f)
	}()
	return nt
}

// AfterFunc is time.AfterFunc whose callback runs as a scheduled task of the arming task's node.
func AfterFunc(d time.Duration, f func()) *time.Timer {
	t := Cur()
	if t == nil {
		return time.AfterFunc(d, f)
	}
	s := t.s
	node := t.Node
	s.mu.Lock()
	s.nextID++
	base := s.nextID << 10
	s.mu.Unlock()
	var fires int64
	return time.AfterFunc(d, func() {
		if s.killedF.Load() || active.Load() != s {
			return
		}
		n := atomic.AddInt64(&fires, 1)
		nt := &Task{ID: base | (n & 1023), Name: fmt.Sprintf("timer%d.%d", base>>10, n), Node: node, s: s, gate: make(chan struct{}, 1), state: stStarting}
		s.mu.Lock()
		nt.dead = s.crashed[node]
		s.all = append(s.all, nt)
		s.mu.Unlock()
		nt.bind()
		nt.run(f)
	})
}

// Yield is a scheduling point of the running task.
func Yield(why string) {
	t := Cur()
	if t == nil {
		return
	}
	t.yield(why)
}

func (t *Task) yield(why string) {
	s := t.s
	if s.killedF.Load() {
		panic(killed)
	}
	if t.quiet > 0 {
		return
	}
	if s.cfg.StickyPct > 0 && !s.stopReq.Load() && t.declined < 256 {
		// local decline: keep running without a hand-off (one draw, no park)
		if s.Dec.Choose(100) < s.cfg.StickyPct {
			// (bounded: a task that spins through yields at one simulated instant, e.g. on a
			// zero-length timer, must reach the driver so that the clock can be advanced)
			t.declined++
			return
		}
	}
	t.declined = 0
	t.parkAs(stParked, why)
}

// ---- locks ---------------------------------------------------------------

type tryLocker interface {
	TryLock() bool
	Lock()
}
type tryRLocker interface {
	TryRLock() bool
	RLock()
}

// Lock acquires l; the acquisition is a scheduling point and never blocks in the runtime.
func Lock(l tryLocker) {
	t := Cur()
	if t == nil {
		l.Lock()
		return
	}
	t.lockYield()
	for !l.TryLock() {
		t.waitLock(l)
	}
}

// RLock acquires l for reading.
func RLock(l tryRLocker) {
	t := Cur()
	if t == nil {
		l.RLock()
		return
	}
	t.lockYield()
	for !l.TryRLock() {
		t.waitLock(l)
	}
}

func (t *Task) lockYield() {
	s := t.s
	if s.killedF.Load() {
		panic(killed)
	}
	if s.cfg.NoPreempt || t.quiet > 0 {
		return
	}
	if s.cfg.LockYield < 100 {
		if s.cfg.LockYield <= 0 || s.Dec.Choose(100) >= s.cfg.LockYield {
			return
		}
	}
	t.yield("lock")
}

func (t *Task) waitLock(key any) {
	s := t.s
	s.mu.Lock()
	s.lockWaiters[key] = append(s.lockWaiters[key], t)
	t.lockK = key
	s.mu.Unlock()
	t.parkAs(stLockWait, "lockwait")
}

func (s *Sim) released(key any) {
	s.mu.Lock()
	ws := s.lockWaiters[key]
	if len(ws) > 0 {
		for _, w := range ws {
			if w.state == stLockWait {
				w.state = stParked
			}
		}
		delete(s.lockWaiters, key)
	}
	s.mu.Unlock()
}

// Unlock releases l and makes its waiters runnable.
func Unlock(l interface{ Unlock() }) {
	l.Unlock()
	if s := active.Load(); s != nil {
		s.released(l)
	}
}

// RUnlock releases a read lock.
func RUnlock(l interface{ RUnlock() }) {
	l.RUnlock()
	if s := active.Load(); s != nil {
		s.released(l)
	}
}

// ---- native wait / wake (used by the fakes) -------------------------------

// WaitWake parks the calling task until Wake(t) is called. It returns false when
// called outside a simulation.
func (t *Task) WaitWake(why string) {
	t.parkAs(stWaiting, why)
}

// Wake makes a task parked in WaitWake runnable. Callable from the running task or the driver.
func (t *Task) Wake() {
	t.s.mu.Lock()
	if t.state == stWaiting && t.cond == nil { // (a task waiting for a condition is not woken by hand)
		t.state = stParked
	}
	t.s.mu.Unlock()
}

// WaitUntil parks the calling task until cond() holds. cond is evaluated on the
// driver between steps, when no task runs, so it may read any state without locks.
func WaitUntil(why string, cond func() bool) {
	t := Cur()
	if t == nil {
		panic("simrt.WaitUntil outside a simulated task")
	}
	if cond() {
		return
	}
	t.s.mu.Lock()
	t.cond = cond
	t.s.mu.Unlock()
	t.parkAs(stWaiting, why)
}

// NewTicker is time.NewTicker; the ticker is stopped when the run ends so that
// the synctest bubble does not advance its clock forever.
func NewTicker(d time.Duration) *time.Ticker {
	tk := time.NewTicker(d)
	if s := active.Load(); s != nil {
		s.mu.Lock()
		s.tickers = append(s.tickers, tk)
		s.mu.Unlock()
	}
	return tk
}

// IsWaiting reports whether the task is parked in WaitWake.
func (t *Task) IsWaiting() bool {
	t.s.mu.Lock()
	defer t.s.mu.Unlock()
	return t.state == stWaiting
}

// Runnable reports whether the task is at a gate and could be released (parked, or waiting for a mutex):
// it is neither inside a blocking operation nor finished. Meant to be asked by the running task.
func (t *Task) Runnable() bool {
	t.s.mu.Lock()
	defer t.s.mu.Unlock()
	return !t.dead && (t.state == stParked || t.state == stLockWait)
}

// Sim returns the task's simulation.
func (t *Task) Sim() *Sim { return t.s }

// ---- channels, sleep, waitgroups -----------------------------------------

// Recv2 is `v, ok := <-ch` as a scheduling point.
func Recv2[T any](ch <-chan T) (T, bool) {
	t := Cur()
	if t == nil {
		v, ok := <-ch
		return v, ok
	}
	select {
	case v, ok := <-ch:
		t.yield("recv")
		return v, ok
	default:
	}
	t.setState(stBlocked, "recv")
	select {
	case v, ok := <-ch:
		t.parkAs(stParked, "recv-wake")
		return v, ok
	case <-t.s.kill:
		panic(killed)
	}
}

// Recv1 is `<-ch` as a scheduling point.
func Recv1[T any](ch <-chan T) T {
	v, _ := Recv2(ch)
	return v
}

// SendY is `ch <- v` as a scheduling point.
func SendY[T any](ch chan<- T, v T) {
	t := Cur()
	if t == nil {
		ch <- v
		return
	}
	select {
	case ch <- v:
		t.yield("send")
		return
	default:
	}
	t.setState(stBlocked, "send")
	select {
	case ch <- v:
		t.parkAs(stParked, "send-wake")
	case <-t.s.kill:
		panic(killed)
	}
}

// Sleep is time.Sleep on the simulated clock.
func Sleep(d time.Duration) {
	t := Cur()
	if t == nil {
		time.Sleep(d)
		return
	}
	t.setState(stBlocked, "sleep")
	tm := time.NewTimer(d)
	select {
	case <-tm.C:
		t.parkAs(stParked, "sleep-wake")
	case <-t.s.kill:
		tm.Stop()
		panic(killed)
	}
}

// WGWait is wg.Wait() followed by a scheduling point.
func WGWait(wg *sync.WaitGroup) {
	t := Cur()
	if t == nil {
		wg.Wait()
		return
	}
	t.setState(stBlocked, "wgwait")
	wg.Wait()
	t.parkAs(stParked, "wg-wake")
}

// Blocking wraps a call into un-instrumented code that may block (e.g. a queue
// Get in a dependency): the task is marked blocked for its duration and parks afterwards.
func Blocking(why string) func() {
	t := Cur()
	if t == nil {
		return func() {}
	}
	t.setState(stBlocked, why)
	return func() { t.parkAs(stParked, why+"-wake") }
}

// ---- nodes: crash, stall ---------------------------------------------------

func (s *Sim) markCrashed(node int) {
	s.mu.Lock()
	s.crashed[node] = true
	for _, t := range s.all {
		if t.Node == node && t.state != stDone {
			t.dead = true
		}
	}
	s.mu.Unlock()
}

// Crash kills every task of node at the current scheduling point: none of them
// is ever released again, nothing is flushed, no deferred function runs.
func (s *Sim) Crash(node int) { s.markCrashed(node); s.Count("fault.crash") }

// MoveTasks re-tags the tasks of one node (used to retire an incarnation: the
// restarted server gets a fresh node id so a later crash hits only the new one).
func (s *Sim) SetTaskNode(t *Task, node int) { s.mu.Lock(); t.Node = node; s.mu.Unlock() }

// SetTimeSkips switches the driver's time skips (Config.TimeSkipPerMille) on or off, e.g. off for the
// fault-free final phase of a run whose liveness bounds assume that runnable work is not delayed.
func (s *Sim) SetTimeSkips(on bool) { s.noSkip = !on }

// Stall hides node's tasks from the scheduler for d of simulated time.
func (s *Sim) Stall(node int, d time.Duration) {
	s.mu.Lock()
	s.stalled[node] = time.Now().Add(d)
	s.mu.Unlock()
	s.Count("fault.stall")
}

// IsStalled reports whether node is currently stalled.
func (s *Sim) IsStalled(node int) bool {
	s.mu.Lock()
	defer s.mu.Unlock()
	u, ok := s.stalled[node]
	return ok && time.Now().Before(u)
}

// FS is a named file-system effect boundary (crash point) in commitlog.
func FS(name string) {
	t := Cur()
	if t == nil {
		return
	}
	s := t.s
	if s.killedF.Load() {
		panic(killed)
	}
	s.fsHits++
	if s.RecordFS {
		s.FSNames = append(s.FSNames, name)
	}
	if left, ok := s.nodeFS[t.Node]; ok {
		if left > 1 {
			s.nodeFS[t.Node] = left - 1
		} else {
			delete(s.nodeFS, t.Node)
			s.FSCrashed = name
			s.Count("fault.fscrash")
			s.Count("fscrash@" + name)
			s.Logf("fs-crash of node %d at %s", t.Node, name)
			if s.OnNodeFSCrash != nil {
				s.OnNodeFSCrash(t.Node, name)
			}
			s.markCrashed(t.Node)
			t.parkAs(stParked, "fs-crashed") // dead: never released
			return
		}
	}
	if s.CrashAtFS != 0 && s.fsHits == s.CrashAtFS {
		s.FSCrashed = name
		s.markCrashed(t.Node)
		s.Count("fault.fscrash")
		s.Logf("fs-crash at %s #%d", name, s.fsHits)
		t.parkAs(stParked, "fs-crashed") // dead: never released
		return
	}
}

// ArmNodeFSCrash makes node die at the k-th file-system effect boundary any of its
// tasks reaches from now on (k >= 1); DisarmNodeFSCrash withdraws that.
func (s *Sim) ArmNodeFSCrash(node, k int) {
	if s.nodeFS == nil {
		s.nodeFS = map[int]int{}
	}
	s.nodeFS[node] = k
}

func (s *Sim) DisarmNodeFSCrash(node int) bool {
	_, ok := s.nodeFS[node]
	delete(s.nodeFS, node)
	return ok
}

// FSHits is the number of FS points passed so far.
func (s *Sim) FSHits() int { return s.fsHits }

// ---- events ---------------------------------------------------------------

// Post registers an event. Callable from the running task or the driver.
func (s *Sim) Post(ev *Event) *Event {
	s.mu.Lock()
	s.evSeq++
	ev.Seq = s.evSeq
	s.events = append(s.events, ev)
	s.mu.Unlock()
	return ev
}

// Cancel removes a pending event.
func (s *Sim) Cancel(ev *Event) {
	s.mu.Lock()
	ev.cancelled = true
	s.mu.Unlock()
}

// PendingEvents returns the number of registered, not yet fired events.
func (s *Sim) PendingEvents() int {
	s.mu.Lock()
	defer s.mu.Unlock()
	n := 0
	for _, e := range s.events {
		if !e.cancelled {
			n++
		}
	}
	return n
}

// ---- driver ---------------------------------------------------------------

type cand struct {
	t  *Task
	ev *Event
}

func (s *Sim) candidates(now time.Time) (cs []cand, nextT time.Time, lockw []*Task, live int) {
	s.mu.Lock()
	var waiting []*Task
	for _, t := range s.all {
		if t.state == stDone || t.dead {
			continue
		}
		live++
		if u, ok := s.stalled[t.Node]; ok {
			if now.Before(u) {
				if nextT.IsZero() || u.Before(nextT) {
					nextT = u
				}
				continue
			}
			delete(s.stalled, t.Node)
		}
		switch t.state {
		case stParked:
			cs = append(cs, cand{t: t})
		case stLockWait:
			lockw = append(lockw, t)
		case stWaiting:
			if t.cond != nil {
				waiting = append(waiting, t)
			}
		}
	}
	// compact events
	j := 0
	for _, e := range s.events {
		if e.cancelled {
			continue
		}
		s.events[j] = e
		j++
	}
	for k := j; k < len(s.events); k++ {
		s.events[k] = nil
	}
	s.events = s.events[:j]
	evs := append([]*Event(nil), s.events...)
	crashed := s.crashed
	stalled := s.stalled
	s.mu.Unlock()
	for _, t := range waiting {
		if t.cond() {
			cs = append(cs, cand{t: t})
		}
	}
	sort.Slice(cs, func(i, j int) bool { return cs[i].t.ID < cs[j].t.ID })
	for _, e := range evs {
		if e.Node >= 0 {
			if crashed[e.Node] {
				continue
			}
			if u, ok := stalled[e.Node]; ok && now.Before(u) {
				if nextT.IsZero() || u.Before(nextT) {
					nextT = u
				}
				continue
			}
		}
		if !e.NotBefore.IsZero() && now.Before(e.NotBefore) {
			if nextT.IsZero() || e.NotBefore.Before(nextT) {
				nextT = e.NotBefore
			}
			continue
		}
		if e.Ready != nil && !e.Ready() {
			continue
		}
		cs = append(cs, cand{ev: e})
	}
	return
}

// Run executes main as the first task (node 0) and drives the simulation until
// every live task is done, Stop is called, the step cap or the horizon is
// reached. Tasks that are still parked or blocked then stay so forever (the
// caller recovers the bubble's end-of-test deadlock report, see RunBubble);
// tickers created through NewTicker are stopped so that the bubble can end.
func (s *Sim) Run(main func()) {
	if !active.CompareAndSwap(nil, s) {
		panic("simrt: another simulation is active")
	}
	s.start = time.Now()
	defer func() {
		s.elapsed = time.Since(s.start)
		s.finished.Store(true)
		s.mu.Lock()
		for _, tk := range s.tickers {
			tk.Stop()
		}
		s.mu.Unlock()
		active.Store(nil)
	}()
	horizon := s.start.Add(s.cfg.Horizon)
	s.GoNode(0, "main", main)
	idleSpins := 0
	lockRetries := 0
	sinceIdle := 0
	idAtWindow := int64(0)
	quantum := time.Millisecond
	spinSteps := s.cfg.SpinSteps
	if spinSteps == 0 {
		spinSteps = 3000
	}
	for {
		synctest.Wait()
		if c := s.cur; c != nil && c.state == stRunning && !s.finished.Load() {
			// the released task neither parked nor finished: it is blocked inside
			// un-instrumented code, which the simulator cannot schedule deterministically
			s.Hazards = append(s.Hazards, fmt.Sprintf("task %s blocked outside simrt at step %d", c.Name, s.Steps))
			s.mu.Lock()
			c.state = stBlocked
			c.why = "uninstrumented"
			s.mu.Unlock()
		}
		if s.stopReq.Load() {
			return
		}
		if s.StepHook != nil {
			s.inDriver = true
			s.StepHook()
			s.inDriver = false
			if s.stopReq.Load() {
				return
			}
		}
		now := time.Now()
		s.inDriver = true
		cs, nextT, lockw, live := s.candidates(now)
		s.inDriver = false
		if len(cs) == 0 && len(lockw) > 0 && idleSpins < 2 {
			// safety net: a mutex released by un-instrumented code — let the waiters retry once
			idleSpins++
			lockRetries = len(lockw)
			s.mu.Lock()
			for _, w := range lockw {
				w.state = stParked
			}
			s.mu.Unlock()
			continue
		}
		if len(cs) == 0 {
			if live == 0 && s.PendingEvents() == 0 {
				return
			}
			if !now.Before(horizon) {
				s.HorizonHit = true
				return
			}
			// idle: let the simulated clock run to the next timer
			wait := horizon.Sub(now)
			if !nextT.IsZero() && nextT.Sub(now) < wait {
				wait = nextT.Sub(now)
			}
			s.Idles++
			if s.cfg.TraceSteps {
				s.logBuf = append(s.logBuf, fmt.Sprintf("%6d %8.3fs   idle: clock runs for at most %v (live %d)", s.Steps, s.Now().Seconds(), wait, live))
			}
			lockRetries = 0
			sinceIdle = 0
			idAtWindow = s.nextID
			quantum = time.Millisecond
			tm := time.NewTimer(wait)
			select {
			case <-s.wake:
				tm.Stop()
			case <-tm.C:
			}
			continue
		}
		if lockRetries > 0 {
			// steps taken by the retrying lock waiters are not progress: a retry that fails must
			// not re-arm the safety net, or the run would never go idle and the clock would stand still
			lockRetries--
		} else {
			idleSpins = 0
		}
		sinceIdle++
		if sinceIdle >= spinSteps && s.nextID != idAtWindow {
			// tasks were created in this window: the system is making progress, it just never idles
			sinceIdle = 0
			idAtWindow = s.nextID
		}
		if sinceIdle >= spinSteps {
			// Busy-waiting code never lets the system go idle, so the simulated clock would
			// stand still for ever. Spinning takes time in the real world: let some pass.
			sinceIdle = 0
			idAtWindow = s.nextID
			s.ForcedAdvances++
			if s.cfg.TraceSteps {
				s.logBuf = append(s.logBuf, fmt.Sprintf("%6d %8.3fs   forced advance by %v (no idle instant for %d steps)", s.Steps, s.Now().Seconds(), quantum, spinSteps))
			}
			time.Sleep(quantum)
			if quantum < 5*time.Second {
				quantum *= 2
			}
			continue
		}
		if s.cfg.TimeSkipPerMille > 0 && !s.noSkip && s.skipped < s.cfg.TimeSkipBudget {
			// (a decision value of 0 - the default of a minimised or exhausted trace - means "no skip")
			if v := s.Dec.Choose(1000); v >= 1000-s.cfg.TimeSkipPerMille {
				lens := []time.Duration{time.Millisecond, 50 * time.Millisecond, time.Second, s.cfg.TimeSkipMax}
				d := lens[s.Dec.Choose(len(lens))]
				if d > s.cfg.TimeSkipMax {
					d = s.cfg.TimeSkipMax
				}
				t0 := time.Now()
				select { // (a token left by the task that parked last)
				case <-s.wake:
				default:
				}
				tm := time.NewTimer(d)
				select {
				case <-s.wake:
					tm.Stop()
				case <-tm.C:
				}
				s.skipped += time.Since(t0)
				s.TimeSkips++
				if s.cfg.TraceSteps {
					s.logBuf = append(s.logBuf, fmt.Sprintf("%6d %8.3fs   time skip of %v (asked %v) with %d runnable", s.Steps, s.Now().Seconds(), time.Since(t0), d, len(cs)))
				}
				s.mix(uint64(time.Since(t0)))
				s.Count("fault.time_passes_while_tasks_are_runnable")
				continue
			}
		}
		s.Steps++
		if progressEvery > 0 && s.Steps%progressEvery == 0 {
			fmt.Fprintf(os.Stderr, "simrt: step %d now=%v idles=%d forced=%d tasks=%d candidates=%d\n", s.Steps, s.Now(), s.Idles, s.ForcedAdvances, s.nextID, len(cs))
		}
		if s.Steps > s.cfg.MaxSteps {
			s.StepLimitHit = true
			return
		}
		idx := s.pick(cs)
		c := cs[idx]
		if c.t != nil {
			if s.last != nil && s.last != c.t && s.last.state == stParked && !s.last.dead {
				s.Preempt++
			}
			s.mix(uint64(c.t.ID))
			if s.cfg.TraceSteps {
				s.logBuf = append(s.logBuf, fmt.Sprintf("%6d %8.3fs   run %s (%s) of %d candidates", s.Steps, s.Now().Seconds(), c.t.Name, c.t.why, len(cs)))
			}
			s.last = c.t
			s.mu.Lock()
			c.t.state = stRunning
			c.t.cond = nil
			s.cur = c.t
			s.mu.Unlock()
			c.t.gate <- struct{}{}
		} else {
			s.mix(uint64(c.ev.Seq)<<1 | 1)
			s.mu.Lock()
			c.ev.cancelled = true
			s.mu.Unlock()
			s.inDriver = true
			c.ev.Fire()
			s.inDriver = false
		}
		if s.AfterStep != nil {
			synctest.Wait()
			s.inDriver = true
			s.AfterStep()
			s.inDriver = false
			if s.stopReq.Load() {
				return
			}
		}
	}
}

func (s *Sim) pick(cs []cand) int {
	if len(cs) == 1 {
		return 0
	}
	// Put the previously running task first so that decision value 0 means "no preemption".
	if s.last != nil {
		for i, c := range cs {
			if c.t == s.last {
				cs[0], cs[i] = cs[i], cs[0]
				break
			}
		}
	}
	return s.Dec.Choose(len(cs))
}

// Crashed reports whether node was crashed.
func (s *Sim) Crashed(node int) bool {
	s.mu.Lock()
	defer s.mu.Unlock()
	return s.crashed[node]
}

// Dump describes every live task (for diagnostics).
func (s *Sim) Dump() string {
	s.mu.Lock()
	defer s.mu.Unlock()
	var b strings.Builder
	ts := append([]*Task(nil), s.all...)
	sort.Slice(ts, func(i, j int) bool { return ts[i].ID < ts[j].ID })
	for _, t := range ts {
		if t.state == stDone {
			continue
		}
		fmt.Fprintf(&b, "task %s node=%d state=%s why=%s dead=%v\n", t.Name, t.Node, stateNames[t.state], t.why, t.dead)
	}
	return b.String()
}

// BlockedTasks returns the names of live tasks that are neither done nor runnable.
func (s *Sim) LiveTasks() (n int) {
	s.mu.Lock()
	defer s.mu.Unlock()
	for _, t := range s.all {
		if t.state != stDone && !t.dead {
			n++
		}
	}
	return
}
