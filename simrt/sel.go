package simrt

import "reflect"

// SelCase is one communication clause of a rewritten select statement.
type SelCase interface {
	try() bool
	rcase() reflect.SelectCase
	got(v reflect.Value, ok bool)
}

// RecvCase is `case v, ok := <-ch`.
type RecvCase[T any] struct {
	ch <-chan T
	v  T
	ok bool
}

// Recv builds a receive clause.
func Recv[T any](ch <-chan T) *RecvCase[T] { return &RecvCase[T]{ch: ch} }

func (c *RecvCase[T]) try() bool {
	select {
	case c.v, c.ok = <-c.ch:
		return true
	default:
		return false
	}
}
func (c *RecvCase[T]) rcase() reflect.SelectCase {
	return reflect.SelectCase{Dir: reflect.SelectRecv, Chan: reflect.ValueOf(c.ch)}
}
func (c *RecvCase[T]) got(v reflect.Value, ok bool) {
	c.ok = ok
	var z T
	c.v = z
	if ok && v.IsValid() {
		c.v, _ = v.Interface().(T)
	}
}

// V is the received value.
func (c *RecvCase[T]) V() T { return c.v }

// V2 is the received value and the ok flag.
func (c *RecvCase[T]) V2() (T, bool) { return c.v, c.ok }

// SendCase is `case ch <- v`.
type SendCase[T any] struct {
	ch chan<- T
	v  T
}

// Send builds a send clause.
func Send[T any](ch chan<- T, v T) *SendCase[T] { return &SendCase[T]{ch: ch, v: v} }

func (c *SendCase[T]) try() bool {
	select {
	case c.ch <- c.v:
		return true
	default:
		return false
	}
}
func (c *SendCase[T]) rcase() reflect.SelectCase {
	return reflect.SelectCase{Dir: reflect.SelectSend, Chan: reflect.ValueOf(c.ch), Send: reflect.ValueOf(&c.v).Elem()}
}
func (c *SendCase[T]) got(reflect.Value, bool) {}

// Select is a select statement as a scheduling point. It returns the index of
// the clause that proceeded, or -1 for the default clause. Which ready clause
// wins is decided by the decision stream, not by the Go runtime.
func Select(hasDefault bool, cases ...SelCase) int {
	t := Cur()
	if t == nil {
		return selectReal(hasDefault, cases, nil)
	}
	s := t.s
	n := len(cases)
	if n > 0 {
		k := 0
		if n > 1 {
			k = s.Dec.Choose(n)
		}
		for i := 0; i < n; i++ {
			j := (k + i) % n
			if cases[j].try() {
				t.yield("select")
				return j
			}
		}
	}
	if hasDefault {
		t.yield("select-default")
		return -1
	}
	t.setState(stBlocked, "select")
	i := selectReal(false, cases, s.kill)
	if i == len(cases) {
		panic(killed)
	}
	t.parkAs(stParked, "select-wake")
	return i
}

func selectReal(hasDefault bool, cases []SelCase, kill chan struct{}) int {
	rc := make([]reflect.SelectCase, 0, len(cases)+1)
	for _, c := range cases {
		rc = append(rc, c.rcase())
	}
	if kill != nil {
		rc = append(rc, reflect.SelectCase{Dir: reflect.SelectRecv, Chan: reflect.ValueOf(kill)})
	}
	if hasDefault {
		rc = append(rc, reflect.SelectCase{Dir: reflect.SelectDefault})
	}
	i, v, ok := reflect.Select(rc)
	if i < len(cases) {
		cases[i].got(v, ok)
		return i
	}
	if kill != nil && i == len(cases) {
		return i
	}
	return -1
}
