module verif.local/simrt

go 1.25.3
