module verif.local/simrt

go 1.25.3

require github.com/anishathalye/porcupine v1.3.0
