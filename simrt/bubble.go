package simrt

import (
	"fmt"
	"strings"
	"testing"
	"testing/synctest"
)

// RunBubble runs f inside a fresh synctest bubble on t and swallows the
// bubble's end-of-test "blocked goroutines remain" report, which is expected:
// tasks of crashed nodes and parked readers are never released again.
// Any other panic is returned as an error string.
func RunBubble(t *testing.T, f func()) (problem string) {
	defer func() {
		if r := recover(); r != nil {
			msg := fmt.Sprint(r)
			if strings.Contains(msg, "blocked goroutines remain") {
				return // the bubble's root returned while parked tasks remain: expected
			}
			problem = msg
		}
	}()
	synctest.Test(t, func(*testing.T) { f() })
	return ""
}
