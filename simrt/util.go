package simrt

import (
	"cmp"
	"os"
	"sort"
)

// Sender fixes a channel's element type so that the value is checked by
// assignability, exactly as in a send statement.
type Sender[T any] struct{ ch chan<- T }

// SendTo starts a send on ch.
func SendTo[T any](ch chan<- T) Sender[T] { return Sender[T]{ch} }

// Do is `ch <- v` as a scheduling point.
func (s Sender[T]) Do(v T) { SendY(s.ch, v) }

// Case builds the send clause `case ch <- v` of a rewritten select.
func (s Sender[T]) Case(v T) *SendCase[T] { return &SendCase[T]{ch: s.ch, v: v} }

// Keys returns the keys of m in ascending order (map iteration order must not
// depend on the per-process hash seed).
func Keys[M ~map[K]V, K cmp.Ordered, V any](m M) []K {
	ks := make([]K, 0, len(m))
	for k := range m {
		ks = append(ks, k)
	}
	sort.Slice(ks, func(i, j int) bool { return ks[i] < ks[j] })
	if s := active.Load(); s != nil && s.cfg.MapSeed != 0 && len(ks) > 1 {
		// a repeatable stand-in for Go's randomised iteration order: code whose result depends
		// on the order of a map range must be exposed, not masked by sorting
		s.mapRanges++
		r := NewRand(s.cfg.MapSeed ^ (s.mapRanges * 0x9e3779b97f4a7c15))
		for i := len(ks) - 1; i > 0; i-- {
			j := r.Intn(i + 1)
			ks[i], ks[j] = ks[j], ks[i]
		}
	}
	return ks
}

// QuietOn makes the running task skip optional scheduling points until QuietOff.
func QuietOn() {
	if s := active.Load(); s != nil {
		s.Quiet(true)
	}
}

// QuietOff undoes QuietOn.
func QuietOff() {
	if s := active.Load(); s != nil {
		s.Quiet(false)
	}
}

// QuietOffAfter runs f and then undoes a preceding QuietOn, also when f panics.
func QuietOffAfter(f func()) {
	defer QuietOff()
	f()
}

// Poke wakes the driver so that wait conditions are evaluated again (used by
// timers and context callbacks, which are not tasks).
func (s *Sim) Poke() { s.poke() }

// RandIntn and friends replace the package-level functions of math/rand in instrumented code: the
// draw comes from the run's decision stream (0 outside a simulation).
func RandIntn(n int) int {
	if s := active.Load(); s != nil && n > 0 {
		return s.Choose(n, "math/rand")
	}
	return 0
}
func RandInt63n(n int64) int64 {
	if n > 1<<30 {
		return int64(RandIntn(1<<30)) % n
	}
	return int64(RandIntn(int(n)))
}
func RandInt31n(n int32) int32 { return int32(RandIntn(int(n))) }
func RandFloat64() float64     { return float64(RandIntn(1<<20)) / float64(1<<20) }

// AtomicPt is the scheduling point the instrumenter puts in front of every sync/atomic operation. It is
// declined at the lock-yield rate, like the point in front of a lock acquisition.
func AtomicPt() struct{} {
	if t := Cur(); t != nil {
		t.lockYield()
	}
	return struct{}{}
}

// MemPt is the scheduling point the instrumenter puts behind a store to memory that other goroutines may reach
// (packages and files named by -mempts). Declined at the lock-yield rate.
func MemPt() {
	if t := Cur(); t != nil {
		t.lockYield()
	}
}

// Pre returns v; its first argument is evaluated before v (Go evaluates call arguments left to right).
func Pre[T any](_ struct{}, v T) T { return v }

// PreDo runs f after its first argument has been evaluated.
func PreDo(_ struct{}, f func()) { f() }

// WriteFile is os.WriteFile with the crash point it has in reality: the file is created or truncated, and
// only then written. A process that dies in between leaves an empty file behind.
func WriteFile(name string, data []byte, perm os.FileMode) error {
	FS("os.WriteFile:truncate")
	f, err := os.OpenFile(name, os.O_WRONLY|os.O_CREATE|os.O_TRUNC, perm)
	if err != nil {
		return err
	}
	FS("os.WriteFile:write")
	_, err = f.Write(data)
	if err1 := f.Close(); err1 != nil && err == nil {
		err = err1
	}
	return err
}
