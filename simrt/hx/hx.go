// Package hx is the part of the harness shared by every engine: programs
// (explicit, JSON-serialisable workloads), outcomes, the worker loop that a
// test binary runs on behalf of bin/check, replay files and the shrinker.
package hx

import (
	"crypto/sha256"
	"encoding/hex"
	"encoding/json"
	"fmt"
	"os"
	"path/filepath"
	"sort"
	"strconv"
	"strings"
	"testing"
	"time"

	"verif.local/simrt"
)

// Op is one step of a generated workload.
type Op struct {
	K string  `json:"k"`
	A []int64 `json:"a,omitempty"`
	S string  `json:"s,omitempty"`
}

func (o Op) String() string {
	var b strings.Builder
	b.WriteString(o.K)
	if len(o.A) > 0 {
		b.WriteString(fmt.Sprint(o.A))
	}
	if o.S != "" {
		b.WriteString("(" + o.S + ")")
	}
	return b.String()
}

// Arg returns A[i] or def.
func (o Op) Arg(i int, def int64) int64 {
	if i < len(o.A) {
		return o.A[i]
	}
	return def
}

// Program is one generated case: parameters and an operation list.
type Program struct {
	Prop string           `json:"prop"`
	P    map[string]int64 `json:"p"`
	Ops  []Op             `json:"ops"`
}

// Param returns a parameter or def.
func (p *Program) Param(name string, def int64) int64 {
	if v, ok := p.P[name]; ok {
		return v
	}
	return def
}

// Brief renders the program compactly for evidence samples.
func (p *Program) Brief() string {
	keys := make([]string, 0, len(p.P))
	for k := range p.P {
		keys = append(keys, k)
	}
	sort.Strings(keys)
	var b strings.Builder
	for _, k := range keys {
		fmt.Fprintf(&b, "%s=%d ", k, p.P[k])
	}
	b.WriteString("|")
	for _, o := range p.Ops {
		b.WriteString(" " + o.String())
	}
	return b.String()
}

// Violation is one failed oracle clause.
type Violation struct {
	Clause string `json:"clause"`
	Sig    string `json:"sig"` // clause + failing shape: what known_findings.json matches on
	Detail string `json:"detail"`
}

// Outcome is what executing a program under one decision stream produced.
type Outcome struct {
	Viol       []Violation    `json:"viol,omitempty"`
	Steps      int            `json:"steps"`
	Preempt    int            `json:"preempt"`
	SimSec     float64        `json:"sim_s"`
	Counters   map[string]int `json:"counters,omitempty"`
	Hash       string         `json:"hash"`
	Nontrivial bool           `json:"nontrivial"`
	Truncated  bool           `json:"truncated,omitempty"` // step cap or horizon hit: oracles at end of run not evaluated
	Trouble    string         `json:"trouble,omitempty"`   // harness/tooling problem: never a verdict
	Trace      []uint32       `json:"-"`
	Log        []string       `json:"-"`
	Checks     int            `json:"checks"` // oracle clause evaluations
}

// Fail appends a violation.
func (o *Outcome) Fail(clause, sig, format string, a ...any) {
	o.Viol = append(o.Viol, Violation{Clause: clause, Sig: sig, Detail: fmt.Sprintf(format, a...)})
}

// Engine executes a program under a decision stream.
type Engine func(t *testing.T, p *Program, dec *simrt.Decider, verbose bool) *Outcome

// Gen generates the idx-th program of a tier from rng.
type Gen func(r *simrt.Rand, tier string, idx int) *Program

// Prop binds a property to its generator and engine.
type Prop struct {
	ID     string
	Gen    Gen
	Engine Engine
	// Avoid, when set, post-processes a generated program so that it never
	// produces the shapes of the listed known findings (avoidance mode).
	Avoid func(p *Program, known []string)
	// Expand, when set, turns a generated base program into the list of programs
	// that are actually executed (e.g. one per crash point found by a counting run).
	Expand func(t *testing.T, base *Program, r *simrt.Rand, tier string) []*Program
}

// Replay is the on-disk form of one exactly repeatable execution.
type Replay struct {
	Property  string    `json:"property"`
	Seed      uint64    `json:"seed"`
	Index     int       `json:"index"`
	Tier      string    `json:"tier"`
	Program   *Program  `json:"program"`
	Trace     []uint32  `json:"trace"`
	Violation Violation `json:"violation"`
	Hash      string    `json:"event_log_hash"`
	Minimised bool      `json:"minimised"`
	OrigOps   int       `json:"orig_ops"`
	OrigTrace int       `json:"orig_trace_len"`
}

// RunLine is one line of a worker's output.
type RunLine struct {
	Prop     string   `json:"prop"`
	Index    int      `json:"index"`
	Sub      int      `json:"sub"`
	Seed     uint64   `json:"seed"`
	Outcome  *Outcome `json:"outcome"`
	Replay   string   `json:"replay,omitempty"`
	Brief    string   `json:"brief,omitempty"`
	WallMs   float64  `json:"wall_ms"`
	Replayed *bool    `json:"replay_reproduced,omitempty"`
	Avoid    bool     `json:"avoid,omitempty"`
	Prelim   bool     `json:"preliminary,omitempty"` // written before minimisation; superseded by a later line of the same index/sub
}

func envInt(name string, def int64) int64 {
	v := os.Getenv(name)
	if v == "" {
		return def
	}
	n, err := strconv.ParseInt(v, 10, 64)
	if err != nil {
		return def
	}
	return n
}

// RunSeed derives the seed of run idx.
func RunSeed(base uint64, prop string, idx int) uint64 {
	h := sha256.Sum256([]byte(fmt.Sprintf("%d/%s/%d", base, prop, idx)))
	var v uint64
	for i := 0; i < 8; i++ {
		v = v<<8 | uint64(h[i])
	}
	return v
}

// TrimTrace drops trailing zeros (an exhausted replay trace answers 0).
func TrimTrace(tr []uint32) []uint32 {
	n := len(tr)
	for n > 0 && tr[n-1] == 0 {
		n--
	}
	return tr[:n]
}

// WorkerMain is the body of TestVerifWorker in every harness package.
//
//	VERIF_PROP   property id            VERIF_TIER   quick|thorough
//	VERIF_SEED   base seed              VERIF_FIRST/VERIF_STRIDE/VERIF_COUNT  run indices
//	VERIF_OUT    jsonl output path      VERIF_BUDGET_S wall-clock budget
//	VERIF_REPLAY replay file to re-execute (prints one line, no search)
//	VERIF_KNOWN  comma separated known-finding signatures (for avoidance mode)
func WorkerMain(t *testing.T, props map[string]*Prop) {
	id := os.Getenv("VERIF_PROP")
	if id == "" {
		t.Skip("VERIF_PROP not set: not invoked by bin/check")
	}
	pr := props[id]
	if pr == nil {
		t.Fatalf("unknown property %s", id)
	}
	out := os.Stdout
	if p := os.Getenv("VERIF_OUT"); p != "" {
		f, err := os.OpenFile(p, os.O_CREATE|os.O_WRONLY|os.O_APPEND, 0o644)
		if err != nil {
			t.Fatal(err)
		}
		defer f.Close()
		out = f
	}
	emit := func(l *RunLine) {
		b, _ := json.Marshal(l)
		out.Write(append(b, '\n'))
	}
	verbose := os.Getenv("VERIF_VERBOSE") != ""
	if rp := os.Getenv("VERIF_REPLAY"); rp != "" {
		b, err := os.ReadFile(rp)
		if err != nil {
			t.Fatal(err)
		}
		var r Replay
		if err := json.Unmarshal(b, &r); err != nil {
			t.Fatal(err)
		}
		t0 := time.Now()
		oc := pr.Engine(t, r.Program, simrt.NewReplay(r.Trace), verbose)
		same := len(oc.Viol) > 0 && oc.Viol[0].Sig == r.Violation.Sig && oc.Hash == r.Hash
		if verbose {
			// a verbose run writes more lines into the event log (server log, protocol trace), which
			// enter its hash: exactness is judged on a second, quiet execution of the same replay
			q := pr.Engine(t, r.Program, simrt.NewReplay(r.Trace), false)
			same = len(q.Viol) > 0 && q.Viol[0].Sig == r.Violation.Sig && q.Hash == r.Hash
		}
		emit(&RunLine{Prop: id, Index: r.Index, Seed: r.Seed, Outcome: oc, Replay: rp, WallMs: ms(t0), Replayed: &same, Brief: r.Program.Brief()})
		if verbose {
			for _, l := range oc.Log {
				fmt.Fprintln(os.Stderr, l)
			}
			for _, v := range oc.Viol {
				fmt.Fprintf(os.Stderr, "VIOL %s %s: %s\n", v.Clause, v.Sig, v.Detail)
			}
		}
		return
	}
	tier := os.Getenv("VERIF_TIER")
	if tier == "" {
		tier = "quick"
	}
	base := uint64(envInt("VERIF_SEED", 1))
	first := int(envInt("VERIF_FIRST", 0))
	stride := int(envInt("VERIF_STRIDE", 1))
	count := int(envInt("VERIF_COUNT", 1<<30))
	budget := time.Duration(envInt("VERIF_BUDGET_S", 30)) * time.Second
	maxRuns := int(envInt("VERIF_MAXRUNS_PER_PROC", 200))
	avoidPct := int(envInt("VERIF_AVOID_PCT", 30))
	var known []string
	if k := os.Getenv("VERIF_KNOWN"); k != "" {
		known = strings.Split(k, ",")
	}
	replayDir := os.Getenv("VERIF_REPLAY_DIR")
	start := time.Now()
	done := 0
	seenSig := map[string]int{}
	firstReplay := map[string]string{}
	for i := 0; i < count && done < maxRuns; i++ {
		if time.Since(start) > budget {
			break
		}
		idx := first + i*stride
		seed := RunSeed(base, id, idx)
		rng := simrt.NewRand(seed)
		prog := pr.Gen(rng, tier, idx)
		prog.Prop = id
		avoid := false
		if pr.Avoid != nil && len(known) > 0 && int(seed%100) < avoidPct {
			pr.Avoid(prog, known)
			avoid = true
		}
		progs := []*Program{prog}
		if pr.Expand != nil {
			progs = pr.Expand(t, prog, rng, tier)
			for _, q := range progs {
				q.Prop = id
			}
		}
		for sub, prog := range progs {
			t0 := time.Now()
			oc := pr.Engine(t, prog, simrt.NewDecider(seed^0x5bd1e995), verbose)
			if verbose {
				for _, l := range oc.Log {
					fmt.Fprintln(os.Stderr, l)
				}
				fmt.Fprintf(os.Stderr, "trouble=%q viol=%v\n", oc.Trouble, oc.Viol)
			}
			line := &RunLine{Prop: id, Index: idx, Sub: sub, Seed: seed, Outcome: oc, WallMs: ms(t0), Avoid: avoid}
			if (done < 3 && sub < 2) || len(oc.Viol) > 0 {
				line.Brief = prog.Brief()
			}
			if len(oc.Viol) > 0 && oc.Trouble == "" {
				rp := &Replay{Property: id, Seed: seed, Index: idx, Tier: tier, Program: prog, Trace: TrimTrace(oc.Trace), Violation: oc.Viol[0], Hash: oc.Hash, OrigOps: len(prog.Ops), OrigTrace: len(oc.Trace)}
				isKnown := false
				for _, k := range known {
					if k == oc.Viol[0].Sig {
						isKnown = true
					}
				}
				// Only the first few violations of one signature are minimised and written
				// as replay files; later ones point at the first file of their signature.
				seenSig[oc.Viol[0].Sig]++
				dup := seenSig[oc.Viol[0].Sig] > 2
				if dup {
					line.Replay = firstReplay[oc.Viol[0].Sig]
				}
				name := ""
				if replayDir != "" && !dup {
					os.MkdirAll(replayDir, 0o755)
					name = filepath.Join(replayDir, fmt.Sprintf("%s-%s-%d.%d.json", id, tier, idx, sub))
				}
				if !dup && (!isKnown || os.Getenv("VERIF_SHRINK_KNOWN") != "") {
					// the finding is on record (unminimised) before minimisation starts, in case it is cut short
					if name != "" {
						b, _ := json.MarshalIndent(rp, "", " ")
						if err := os.WriteFile(name, b, 0o644); err == nil {
							pre := *line
							pre.Replay, pre.Prelim = name, true
							poc := *oc
							poc.Trace = nil
							pre.Outcome = &poc
							emit(&pre)
						}
					}
					Shrink(t, pr.Engine, rp, 30*time.Second)
				}
				if name != "" {
					b, _ := json.MarshalIndent(rp, "", " ")
					if err := os.WriteFile(name, b, 0o644); err == nil {
						line.Replay = name
						if firstReplay[oc.Viol[0].Sig] == "" {
							firstReplay[oc.Viol[0].Sig] = name
						}
					}
				}
				line.Outcome.Viol = []Violation{rp.Violation}
				line.Brief = rp.Program.Brief()
			}
			oc.Trace = nil
			emit(line)
			if time.Since(start) > budget+budget/2 {
				break
			}
		}
		done++
	}
}

func ms(t0 time.Time) float64 { return float64(time.Since(t0).Microseconds()) / 1000 }

// HashHex formats a simulation hash.
func HashHex(h uint64) string {
	var b [8]byte
	for i := 0; i < 8; i++ {
		b[i] = byte(h >> (56 - 8*i))
	}
	return hex.EncodeToString(b[:])
}

// Shrink minimises rp.Program and rp.Trace while the same violation signature persists.
func Shrink(t *testing.T, eng Engine, rp *Replay, budget time.Duration) {
	deadline := time.Now().Add(budget)
	sig := rp.Violation.Sig
	try := func(p *Program, tr []uint32) (*Outcome, bool) {
		if time.Now().After(deadline) {
			return nil, false
		}
		oc := eng(t, p, simrt.NewReplay(tr), false)
		if oc.Trouble == "" && len(oc.Viol) > 0 && oc.Viol[0].Sig == sig {
			return oc, true
		}
		return nil, false
	}
	accept := func(p *Program, oc *Outcome) {
		rp.Program = p
		rp.Trace = TrimTrace(oc.Trace)
		rp.Violation = oc.Viol[0]
		rp.Hash = oc.Hash
		rp.Minimised = true
	}
	// 0. does the all-zero schedule (no preemption, first choices) already fail?
	if oc, ok := try(rp.Program, nil); ok {
		accept(rp.Program, oc)
	}
	// 1. delete chunks of operations (re-running with the current trace, then with none)
	for chunk := len(rp.Program.Ops) / 2; chunk >= 1; chunk /= 2 {
		for i := 0; i+chunk <= len(rp.Program.Ops); {
			if time.Now().After(deadline) {
				return
			}
			np := &Program{Prop: rp.Program.Prop, P: rp.Program.P}
			np.Ops = append(append([]Op{}, rp.Program.Ops[:i]...), rp.Program.Ops[i+chunk:]...)
			if oc, ok := try(np, nil); ok {
				accept(np, oc)
				continue
			}
			if len(rp.Trace) > 0 {
				if oc, ok := try(np, rp.Trace); ok {
					accept(np, oc)
					continue
				}
			}
			i += chunk
		}
	}
	// 2. shorten the schedule: binary search the shortest failing prefix (rest = zeros)
	if len(rp.Trace) > 0 {
		lo, hi := 0, len(rp.Trace)
		for lo < hi {
			mid := (lo + hi) / 2
			if oc, ok := try(rp.Program, rp.Trace[:mid]); ok {
				_ = oc
				hi = mid
			} else {
				lo = mid + 1
			}
			if time.Now().After(deadline) {
				break
			}
		}
		if hi < len(rp.Trace) {
			if oc, ok := try(rp.Program, rp.Trace[:hi]); ok {
				accept(rp.Program, oc)
			}
		}
	}
	// 3. zero blocks of the remaining schedule
	for chunk := len(rp.Trace) / 2; chunk >= 1 && len(rp.Trace) > 0; chunk /= 2 {
		for i := 0; i+chunk <= len(rp.Trace); i += chunk {
			if time.Now().After(deadline) {
				return
			}
			allZero := true
			for _, v := range rp.Trace[i : i+chunk] {
				if v != 0 {
					allZero = false
				}
			}
			if allZero {
				continue
			}
			nt := append([]uint32{}, rp.Trace...)
			for j := i; j < i+chunk; j++ {
				nt[j] = 0
			}
			if oc, ok := try(rp.Program, nt); ok {
				accept(rp.Program, oc)
			}
		}
		if chunk > 64 && len(rp.Trace) > 4096 {
			continue
		}
	}
}
