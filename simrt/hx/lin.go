package hx

import (
	"time"

	"github.com/anishathalye/porcupine"
)

// LinOp is one operation of a recorded history. Call and Return are values of the
// harness's global event sequence (not simulated time: operations that overlap in
// simulated time would tie). An operation whose outcome is unknown (timed out,
// server died) has Return == 0 and is given an open end.
type LinOp struct {
	Client int
	In     any
	Out    any
	Call   int64
	Return int64
}

// Linearizable checks the history against a sequential model. It returns
// "ok", "illegal" or "unknown" (checker time-out: inconclusive, never reported as a violation).
func Linearizable(init func() any, step func(state, in, out any) (bool, any), equal func(a, b any) bool, ops []LinOp, budget time.Duration) string {
	model := porcupine.Model{
		Init:  init,
		Step:  step,
		Equal: equal,
	}
	var max int64
	for _, o := range ops {
		if o.Return > max {
			max = o.Return
		}
		if o.Call > max {
			max = o.Call
		}
	}
	pops := make([]porcupine.Operation, 0, len(ops))
	for _, o := range ops {
		ret := o.Return
		if ret == 0 {
			max++
			ret = max + 1000000 // open-ended: may take effect at any later point
		}
		pops = append(pops, porcupine.Operation{ClientId: o.Client, Input: o.In, Output: o.Out, Call: o.Call, Return: ret})
	}
	switch porcupine.CheckOperationsTimeout(model, pops, budget) {
	case porcupine.Ok:
		return "ok"
	case porcupine.Illegal:
		return "illegal"
	}
	return "unknown"
}

// LinearizableND is Linearizable for a model whose step function may return several
// possible next states (e.g. an operation whose outcome is unknown).
func LinearizableND(init []any, step func(state, in, out any) []any, equal func(a, b any) bool, ops []LinOp, budget time.Duration) string {
	nm := porcupine.NondeterministicModel{
		Init:  func() []interface{} { return init },
		Step:  step,
		Equal: equal,
	}
	model := nm.ToModel()
	var max int64
	for _, o := range ops {
		if o.Return > max {
			max = o.Return
		}
		if o.Call > max {
			max = o.Call
		}
	}
	pops := make([]porcupine.Operation, 0, len(ops))
	for _, o := range ops {
		ret := o.Return
		if ret == 0 {
			max++
			ret = max + 1000000
		}
		pops = append(pops, porcupine.Operation{ClientId: o.Client, Input: o.In, Output: o.Out, Call: o.Call, Return: ret})
	}
	switch porcupine.CheckOperationsTimeout(model, pops, budget) {
	case porcupine.Ok:
		return "ok"
	case porcupine.Illegal:
		return "illegal"
	}
	return "unknown"
}
