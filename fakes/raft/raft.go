// Package raft is the simulator-owned stand-in for github.com/hashicorp/raft:
// an ordered-commit stub. One Cluster per simulation run holds the single
// committed log; a node's FSM receives committed entries strictly in index
// order, each hand-over a scheduled event, so nodes lag each other by seeded
// amounts. Entries are written through the LogStore the node was given (the real
// raft-boltdb), so liftbridge's recovery code reads real data. Leadership,
// snapshots, log truncation and restarts are simulator events.
// Raft itself is NOT under test.
package raft

import (
	"errors"
	"fmt"
	"io"
	"os"
	"path/filepath"
	"sort"
	"strconv"
	"strings"
	"time"

	"verif.local/simrt"
)

type (
	ServerID        string
	ServerAddress   string
	ServerSuffrage  int
	RaftState       uint32
	LogType         uint8
	ProtocolVersion int
	SnapshotVersion int
)

const (
	Voter ServerSuffrage = iota
	Nonvoter
	Staging
)

const (
	Follower RaftState = iota
	Candidate
	Leader
	Shutdown
)

func (s RaftState) String() string {
	return [...]string{"Follower", "Candidate", "Leader", "Shutdown"}[s]
}

const (
	LogCommand LogType = iota
	LogNoop
	LogAddPeerDeprecated
	LogRemovePeerDeprecated
	LogBarrier
	LogConfiguration
)

var (
	ErrLeader                       = errors.New("node is the leader")
	ErrNotLeader                    = errors.New("node is not the leader")
	ErrLeadershipLost               = errors.New("leadership lost while committing log")
	ErrRaftShutdown                 = errors.New("raft is already shutdown")
	ErrEnqueueTimeout               = errors.New("timed out enqueuing operation")
	ErrLogNotFound                  = errors.New("log not found")
	ErrCantBootstrap                = errors.New("bootstrap only works on new clusters")
	ErrLeadershipTransferInProgress = errors.New("leadership transfer in progress")
)

// Log is a replicated log entry.
type Log struct {
	Index      uint64
	Term       uint64
	Type       LogType
	Data       []byte
	Extensions []byte
	AppendedAt time.Time
}

// LogStore is used to store and retrieve logs.
type LogStore interface {
	FirstIndex() (uint64, error)
	LastIndex() (uint64, error)
	GetLog(index uint64, log *Log) error
	StoreLog(log *Log) error
	StoreLogs(logs []*Log) error
	DeleteRange(min, max uint64) error
}

// StableStore is used for key configuration.
type StableStore interface {
	Set(key []byte, val []byte) error
	Get(key []byte) ([]byte, error)
	SetUint64(key []byte, val uint64) error
	GetUint64(key []byte) (uint64, error)
}

// FSM is the client state machine.
type FSM interface {
	Apply(*Log) interface{}
	Snapshot() (FSMSnapshot, error)
	Restore(snapshot io.ReadCloser) error
}

// FSMSnapshot is returned by FSM.Snapshot.
type FSMSnapshot interface {
	Persist(sink SnapshotSink) error
	Release()
}

// SnapshotSink receives snapshot data.
type SnapshotSink interface {
	io.WriteCloser
	ID() string
	Cancel() error
}

// SnapshotMeta describes a snapshot.
type SnapshotMeta struct {
	Version SnapshotVersion
	ID      string
	Index   uint64
	Term    uint64
	Size    int64
}

// SnapshotStore stores snapshots.
type SnapshotStore interface {
	Create(version SnapshotVersion, index, term uint64, configuration Configuration, configurationIndex uint64, trans Transport) (SnapshotSink, error)
	List() ([]*SnapshotMeta, error)
	Open(id string) (*SnapshotMeta, io.ReadCloser, error)
}

// Transport is opaque in the stub.
type Transport interface{}

// NetworkTransport is an inert transport handle.
type NetworkTransport struct{ closed bool }

func (t *NetworkTransport) Close() error { t.closed = true; return nil }

// Server is a member of the configuration.
type Server struct {
	Suffrage ServerSuffrage
	ID       ServerID
	Address  ServerAddress
}

// Configuration is the cluster membership.
type Configuration struct{ Servers []Server }

// Config is the node configuration.
type Config struct {
	ProtocolVersion    ProtocolVersion
	HeartbeatTimeout   time.Duration
	ElectionTimeout    time.Duration
	CommitTimeout      time.Duration
	MaxAppendEntries   int
	TrailingLogs       uint64
	SnapshotInterval   time.Duration
	SnapshotThreshold  uint64
	LeaderLeaseTimeout time.Duration
	LocalID            ServerID
	NotifyCh           chan<- bool
	LogOutput          io.Writer
	LogLevel           string
}

// DefaultConfig returns default configuration.
func DefaultConfig() *Config {
	return &Config{ProtocolVersion: 3, HeartbeatTimeout: time.Second, ElectionTimeout: time.Second, CommitTimeout: 50 * time.Millisecond, MaxAppendEntries: 64, TrailingLogs: 10240, SnapshotInterval: 120 * time.Second, SnapshotThreshold: 8192, LeaderLeaseTimeout: 500 * time.Millisecond, LogLevel: "DEBUG"}
}

// Future types.
type Future interface{ Error() error }
type IndexFuture interface {
	Future
	Index() uint64
}
type ApplyFuture interface {
	IndexFuture
	Response() interface{}
}
type ConfigurationFuture interface {
	IndexFuture
	Configuration() Configuration
}

type errFuture struct{ err error }

func (e errFuture) Error() error                 { simrt.Yield("raft-future"); return e.err }
func (e errFuture) Index() uint64                { return 0 }
func (e errFuture) Response() interface{}        { return nil }
func (e errFuture) Configuration() Configuration { return Configuration{} }

// ---- log cache, snapshot store ----------------------------------------------------

// LogCache is a pass-through wrapper.
type LogCache struct{ LogStore }

func NewLogCache(capacity int, store LogStore) (*LogCache, error) {
	if capacity <= 0 {
		return nil, errors.New("capacity must be positive")
	}
	return &LogCache{store}, nil
}

// FileSnapshotStore keeps snapshots as files "<dir>/snapshots/<index>-<term>.snap".
type FileSnapshotStore struct {
	dir    string
	retain int
}

func NewFileSnapshotStore(base string, retain int, logOutput io.Writer) (*FileSnapshotStore, error) {
	dir := filepath.Join(base, "snapshots")
	if err := os.MkdirAll(dir, 0o755); err != nil {
		return nil, err
	}
	if retain < 1 {
		retain = 1
	}
	return &FileSnapshotStore{dir: dir, retain: retain}, nil
}

type fileSink struct {
	store *FileSnapshotStore
	index uint64
	term  uint64
	f     *os.File
	tmp   string
	done  bool
}

func (s *fileSink) Write(p []byte) (int, error) { return s.f.Write(p) }
func (s *fileSink) ID() string                  { return fmt.Sprintf("%d-%d", s.index, s.term) }
func (s *fileSink) Cancel() error {
	if s.done {
		return nil
	}
	s.done = true
	s.f.Close()
	return os.Remove(s.tmp)
}
func (s *fileSink) Close() error {
	if s.done {
		return nil
	}
	s.done = true
	if err := s.f.Close(); err != nil {
		return err
	}
	if err := os.Rename(s.tmp, filepath.Join(s.store.dir, s.ID()+".snap")); err != nil {
		return err
	}
	// retention
	metas, _ := s.store.List()
	for i, m := range metas {
		if i >= s.store.retain {
			os.Remove(filepath.Join(s.store.dir, m.ID+".snap"))
		}
	}
	return nil
}

func (f *FileSnapshotStore) Create(version SnapshotVersion, index, term uint64, configuration Configuration, configurationIndex uint64, trans Transport) (SnapshotSink, error) {
	tmp := filepath.Join(f.dir, fmt.Sprintf("%d-%d.tmp", index, term))
	fh, err := os.Create(tmp)
	if err != nil {
		return nil, err
	}
	return &fileSink{store: f, index: index, term: term, f: fh, tmp: tmp}, nil
}

// List returns the snapshots, newest first.
func (f *FileSnapshotStore) List() ([]*SnapshotMeta, error) {
	ents, err := os.ReadDir(f.dir)
	if err != nil {
		return nil, err
	}
	var out []*SnapshotMeta
	for _, e := range ents {
		if !strings.HasSuffix(e.Name(), ".snap") {
			continue
		}
		id := strings.TrimSuffix(e.Name(), ".snap")
		parts := strings.Split(id, "-")
		if len(parts) != 2 {
			continue
		}
		idx, _ := strconv.ParseUint(parts[0], 10, 64)
		term, _ := strconv.ParseUint(parts[1], 10, 64)
		out = append(out, &SnapshotMeta{ID: id, Index: idx, Term: term})
	}
	sort.Slice(out, func(i, j int) bool { return out[i].Index > out[j].Index })
	return out, nil
}

func (f *FileSnapshotStore) Open(id string) (*SnapshotMeta, io.ReadCloser, error) {
	metas, _ := f.List()
	for _, m := range metas {
		if m.ID == id {
			fh, err := os.Open(filepath.Join(f.dir, id+".snap"))
			return m, fh, err
		}
	}
	return nil, nil, errors.New("snapshot not found")
}

// HasExistingState reports whether the stores hold any state.
func HasExistingState(logs LogStore, stable StableStore, snaps SnapshotStore) (bool, error) {
	if t, err := stable.GetUint64([]byte("CurrentTerm")); err == nil && t > 0 {
		return true, nil
	}
	last, err := logs.LastIndex()
	if err != nil {
		return false, err
	}
	if last > 0 {
		return true, nil
	}
	metas, err := snaps.List()
	if err != nil {
		return false, err
	}
	return len(metas) > 0, nil
}
