module github.com/hashicorp/raft

go 1.25.3

require verif.local/simrt v0.0.0

replace verif.local/simrt => ../../simrt
