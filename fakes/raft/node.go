package raft

import (
	"bytes"
	"errors"
	"fmt"
	"io"
	"sort"
	"time"

	"verif.local/simrt"
)

// Cluster is the consensus group of one simulation run.
type Cluster struct {
	Sim     *simrt.Sim
	Log     []*Log // committed entries, Log[i].Index == i+1
	nodes   map[ServerID]*Raft
	order   []ServerID
	Leader  ServerID
	Term    uint64
	Servers []Server
	// knobs
	ElectionDelayMax time.Duration // a new leader appears within this simulated delay
	AutoElect        bool          // elect automatically when there is no leader
	electing         bool
	// Cut[a][b]: node a cannot reach node b (consulted for follower progress)
	Connected func(a, b int) bool
	Elections int
	// FailApplies: the next n Apply calls on the leader fail with ErrEnqueueTimeout and commit nothing
	// (hashicorp/raft's answer when its apply queue stays full for the caller's timeout)
	FailApplies int
}

var cluster *Cluster

// NewCluster installs a fresh cluster for a simulation run.
func NewCluster(s *simrt.Sim) *Cluster {
	cluster = &Cluster{Sim: s, nodes: map[ServerID]*Raft{}, ElectionDelayMax: 2 * time.Second, AutoElect: true}
	return cluster
}

// CurrentCluster returns the installed cluster.
func CurrentCluster() *Cluster { return cluster }

// CommitIndex is the index of the last committed entry.
func (c *Cluster) CommitIndex() uint64 { return uint64(len(c.Log)) }

// Node returns the live Raft instance of a server id.
func (c *Cluster) Node(id ServerID) *Raft { return c.nodes[id] }

// Nodes lists live nodes in registration order.
func (c *Cluster) Nodes() []*Raft {
	var out []*Raft
	for _, id := range c.order {
		if n := c.nodes[id]; n != nil && !n.dead {
			out = append(out, n)
		}
	}
	return out
}

func (c *Cluster) isVoter(id ServerID) bool {
	for _, s := range c.Servers {
		if s.ID == id {
			return s.Suffrage == Voter || s.Suffrage == Staging
		}
	}
	return false
}

func (c *Cluster) quorumAlive() []*Raft {
	voters := 0
	for _, s := range c.Servers {
		if s.Suffrage == Voter || s.Suffrage == Staging {
			voters++
		}
	}
	var live []*Raft
	for _, n := range c.Nodes() {
		if c.isVoter(n.id) && !n.shutdown && !c.Sim.Crashed(n.simNode) {
			live = append(live, n)
		}
	}
	if voters == 0 || len(live)*2 <= voters {
		return nil
	}
	return live
}

// canReachMajority reports whether r and the voters it is connected to (both ways) form a majority.
// A Raft leader that cannot reach a majority commits nothing and loses its lease.
func (c *Cluster) canReachMajority(r *Raft) bool {
	voters, reach := 0, 0
	for _, s := range c.Servers {
		if s.Suffrage != Voter && s.Suffrage != Staging {
			continue
		}
		voters++
		n := c.nodes[s.ID]
		if n == nil || n.dead || n.shutdown || c.Sim.Crashed(n.simNode) {
			continue
		}
		if n == r || c.Connected == nil || (c.Connected(r.simNode, n.simNode) && c.Connected(n.simNode, r.simNode)) {
			reach++
		}
	}
	return voters > 0 && reach*2 > voters
}

// Reevaluate is called after the network changed: a leader cut off from the majority steps down
// (lease expiry) and the connected majority elects a new one.
func (c *Cluster) Reevaluate() {
	if c.Leader != "" {
		if l := c.nodes[c.Leader]; l == nil || l.dead || !c.canReachMajority(l) {
			c.Sim.Count("fault.controller_lost_majority")
			c.SetLeader("")
			return
		}
	}
	c.maybeElect()
}

// maybeElect schedules an election when the group has no leader.
func (c *Cluster) maybeElect() {
	if !c.AutoElect || c.electing || c.Leader != "" {
		return
	}
	if c.quorumAlive() == nil {
		return
	}
	c.electing = true
	d := time.Duration(c.Sim.Choose(int(c.ElectionDelayMax/time.Millisecond)+1, "election-delay")) * time.Millisecond
	c.Sim.Post(&simrt.Event{Label: "raft-election", Node: -1, NotBefore: time.Now().Add(d), Fire: func() {
		c.electing = false
		if c.Leader != "" {
			return
		}
		live := c.quorumAlive()
		if live == nil {
			return
		}
		var cands []*Raft
		for _, n := range live {
			if c.canReachMajority(n) {
				cands = append(cands, n)
			}
		}
		if len(cands) == 0 {
			return
		}
		c.SetLeader(cands[c.Sim.Choose(len(cands), "new-leader")].id)
	}})
}

// SetLeader moves leadership ("" = nobody). The nodes are told through their notify channels.
func (c *Cluster) SetLeader(id ServerID) {
	if c.Leader == id {
		return
	}
	old := c.Leader
	c.Leader = id
	if n := c.nodes[old]; old != "" && n != nil && !n.dead {
		n.notify(false)
	}
	if id != "" {
		c.Term++
		c.Elections++
		c.Sim.Count("fault.controller_change")
		if n := c.nodes[id]; n != nil {
			n.stable.SetUint64([]byte("CurrentTerm"), c.Term)
			n.notify(true)
		}
	} else {
		c.maybeElect()
	}
}

// StepDown makes the current leader lose leadership; a new election follows.
func (c *Cluster) StepDown() { c.SetLeader("") }

// NodeCrashed must be called when a simulation node of a raft member was crashed.
func (c *Cluster) NodeCrashed(id ServerID) {
	if n := c.nodes[id]; n != nil {
		n.dead = true
	}
	if c.Leader == id {
		c.Leader = ""
		c.maybeElect()
	}
}

// ---- node -------------------------------------------------------------------------

// Raft is one member.
type Raft struct {
	c           *Cluster
	id          ServerID
	simNode     int
	fsm         FSM
	logs        LogStore
	stable      StableStore
	snaps       SnapshotStore
	conf        *Config
	applied     uint64 // last index applied to the FSM
	commit      uint64 // highest index this node knows to be committed
	granting    bool
	shutdown    bool
	dead        bool
	applier     *simrt.Task
	notifyQ     []bool
	notifier    *simrt.Task
	resp        map[uint64]interface{}
	snapReq     bool
	snapBusy    bool
	floor       uint64 // highest index an earlier incarnation of this member had applied
	toldLeader  bool   // the last leadership notification handed to the server
	applierDone bool
	trailing    uint64
	holdUntil   time.Time
	Snapshots   int
	// LagMax bounds how far this node's knowledge of the commit index trails, in scheduling terms it is
	// unbounded: every hand-over is its own event.
}

// NewRaft creates a member, restores its FSM from the newest snapshot and starts its apply loop.
func NewRaft(conf *Config, fsm FSM, logs LogStore, stable StableStore, snaps SnapshotStore, trans Transport) (*Raft, error) {
	c := cluster
	if c == nil {
		return nil, errors.New("raft(sim): no cluster installed")
	}
	t := simrt.Cur()
	if t == nil {
		return nil, errors.New("raft(sim): NewRaft outside a simulated task")
	}
	r := &Raft{c: c, id: conf.LocalID, simNode: t.Node, fsm: fsm, logs: logs, stable: stable, snaps: snaps, conf: conf, resp: map[uint64]interface{}{}}
	if prev := c.nodes[r.id]; prev != nil {
		r.floor = prev.applied
		if prev.floor > r.floor {
			r.floor = prev.floor
		}
	}
	// restore from the newest usable snapshot
	metas, err := snaps.List()
	if err != nil {
		return nil, err
	}
	for _, m := range metas {
		_, rc, err := snaps.Open(m.ID)
		if err != nil {
			continue
		}
		if err := fsm.Restore(rc); err != nil {
			return nil, fmt.Errorf("failed to restore snapshot %s: %v", m.ID, err)
		}
		c.Sim.Logf("raft: %s restored the snapshot at index %d", conf.LocalID, m.Index)
		r.applied = m.Index
		r.commit = m.Index
		break
	}
	if _, known := c.nodes[r.id]; !known {
		c.order = append(c.order, r.id)
	}
	c.nodes[r.id] = r
	r.applier = c.Sim.GoNode(r.simNode, "raft-fsm:"+string(r.id), r.applyLoop)
	r.notifier = c.Sim.GoNode(r.simNode, "raft-notify:"+string(r.id), r.notifyLoop)
	c.maybeElect()
	r.scheduleGrant()
	return r, nil
}

func (r *Raft) notify(leader bool) {
	r.notifyQ = append(r.notifyQ, leader)
	if r.notifier != nil {
		r.notifier.Wake()
	}
}

func (r *Raft) notifyLoop() {
	t := simrt.Cur()
	for {
		for len(r.notifyQ) == 0 && !r.shutdown {
			t.WaitWake("raft-notify-idle")
		}
		if r.shutdown {
			return
		}
		v := r.notifyQ[0]
		r.notifyQ = r.notifyQ[1:]
		if v {
			r.toldLeader = true
		}
		if r.conf.NotifyCh != nil {
			simrt.SendY(r.conf.NotifyCh, v)
		}
		// (toldLeader is not reset: the notification channel is buffered, so the server may still be
		// acting on an earlier "you lead" when a later "you do not" has been queued)
	}
}

// reachable reports whether this node currently hears from the leader.
func (r *Raft) reachable() bool {
	if r.c.Leader == "" {
		return false
	}
	if r.c.Leader == r.id {
		return true
	}
	l := r.c.nodes[r.c.Leader]
	if l == nil || l.dead {
		return false
	}
	if r.c.Connected != nil && !r.c.Connected(l.simNode, r.simNode) {
		return false
	}
	return true
}

// Hold makes this member learn nothing new for d of simulated time: the leader's AppendEntries to it are
// slow (the Raft connection is a NATS connection of its own, a saturated or lossy route delays it while
// the member's other traffic flows). The member keeps acting on the metadata it has. Commits do not wait
// for it (the caller keeps the held members a minority).
func (r *Raft) Hold(d time.Duration) {
	r.holdUntil = time.Now().Add(d)
	// (an event that does nothing: the driver's idle wait ends when the hold does)
	r.c.Sim.Post(&simrt.Event{Label: "raft-hold-ends:" + string(r.id), Node: -1, NotBefore: r.holdUntil, Fire: func() {}})
}

// Held reports whether the member is currently kept from learning new entries.
func (r *Raft) Held() bool { return time.Now().Before(r.holdUntil) }

// scheduleGrant posts the event that lets this node learn about (and store) the next committed entries.
func (r *Raft) scheduleGrant() {
	if r.granting || r.shutdown || r.dead {
		return
	}
	if r.commit >= r.c.CommitIndex() {
		return
	}
	r.granting = true
	r.c.Sim.Post(&simrt.Event{
		Label: "raft-replicate:" + string(r.id),
		Node:  r.simNode,
		Ready: func() bool { return r.reachable() && (r.c.Leader == r.id || !time.Now().Before(r.holdUntil)) },
		Fire: func() {
			r.granting = false
			if r.shutdown || r.dead {
				return
			}
			// a batch of 1..k entries reaches the node together with the new commit index
			behind := int(r.c.CommitIndex() - r.commit)
			k := 1
			if behind > 1 {
				k = 1 + r.c.Sim.Choose(behind, "raft-batch")
			}
			upTo := r.commit + uint64(k)
			// A restarted member never learns a commit index below what it had applied before: commit
			// indexes do not go back, and whoever leads now knows at least as much.
			if upTo < r.floor {
				upTo = r.floor
			}
			last, _ := r.logs.LastIndex()
			for i := last + 1; i <= upTo; i++ {
				e := r.c.Log[i-1]
				cp := *e
				if err := r.logs.StoreLog(&cp); err != nil {
					panic(fmt.Sprintf("raft(sim): StoreLog: %v", err))
				}
			}
			r.commit = upTo
			if r.applier != nil {
				r.applier.Wake()
			}
			r.scheduleGrant()
		},
	})
}

func (r *Raft) applyLoop() {
	defer func() { r.applierDone = true }()
	t := simrt.Cur()
	for {
		for r.applied >= r.commit && !r.shutdown && !r.snapReq {
			t.WaitWake("raft-fsm-idle")
		}
		if r.shutdown {
			return
		}
		if r.snapReq && !r.snapBusy {
			r.snapReq = false
			r.takeSnapshot()
			continue
		}
		if r.applied >= r.commit {
			r.snapReq = false
			continue
		}
		idx := r.applied + 1
		e := &Log{}
		if err := r.logs.GetLog(idx, e); err != nil {
			// not in the store (truncated before this node applied it): take the cluster's copy
			cp := *r.c.Log[idx-1]
			e = &cp
		}
		var resp interface{}
		if e.Type == LogCommand {
			resp = r.fsm.Apply(e)
		}
		r.resp[idx] = resp
		r.applied = idx
		simrt.Yield("raft-applied")
	}
}

// RequestSnapshot asks the node to snapshot its FSM at its next opportunity (simulator event).
// trailing is the number of log entries kept before the snapshot index.
func (r *Raft) RequestSnapshot(trailing uint64) {
	r.snapReq = true
	r.trailing = trailing
	if r.applier != nil {
		r.applier.Wake()
	}
}

func (r *Raft) takeSnapshot() {
	// FSM.Snapshot runs on the FSM task (serialised with Apply); Persist runs on another task
	// concurrently with later applies, as hashicorp/raft documents.
	idx := r.applied
	if idx == 0 {
		return
	}
	snap, err := r.fsm.Snapshot()
	if err != nil {
		return
	}
	r.snapBusy = true
	term := r.c.Log[idx-1].Term
	trailing := r.trailing
	r.c.Sim.GoNode(r.simNode, "raft-snapshot:"+string(r.id), func() {
		defer func() { r.snapBusy = false }()
		sink, err := r.snaps.Create(1, idx, term, Configuration{Servers: r.c.Servers}, 0, nil)
		if err != nil {
			return
		}
		if err := snap.Persist(sink); err != nil {
			snap.Release()
			return
		}
		snap.Release()
		r.Snapshots++
		r.c.Sim.Count("fault.raft_snapshot")
		r.c.Sim.Logf("raft: %s persisted a snapshot at index %d (trailing %d)", r.id, idx, trailing)
		// compact the log: keep `trailing` entries before the snapshot index
		first, _ := r.logs.FirstIndex()
		if first > 0 && idx > trailing && idx-trailing >= first {
			if err := r.logs.DeleteRange(first, idx-trailing); err == nil {
				r.c.Sim.Count("fault.raft_log_truncation")
			}
		}
	})
}

// ---- API used by liftbridge ----------------------------------------------------------

func (r *Raft) State() RaftState {
	switch {
	case r.shutdown:
		return Shutdown
	case r.c.Leader == r.id:
		return Leader
	}
	return Follower
}

func (r *Raft) Leader() ServerAddress {
	if !r.reachable() {
		return ""
	}
	return ServerAddress(r.c.Leader)
}

func (r *Raft) LeaderWithID() (ServerAddress, ServerID) {
	return r.Leader(), ServerID(r.Leader())
}

func (r *Raft) LastIndex() uint64    { i, _ := r.logs.LastIndex(); return i }
func (r *Raft) AppliedIndex() uint64 { return r.applied }
func (r *Raft) CommitIndex() uint64  { return r.commit }

func (r *Raft) Stats() map[string]string {
	last, _ := r.logs.LastIndex()
	return map[string]string{
		"state":          r.State().String(),
		"term":           fmt.Sprint(r.c.Term),
		"last_log_index": fmt.Sprint(last),
		"commit_index":   fmt.Sprint(r.commit),
		"applied_index":  fmt.Sprint(r.applied),
	}
}

type applyFuture struct {
	r        *Raft
	idx      uint64
	deadline time.Time
	err      error
	done     bool
}

func (f *applyFuture) wait() {
	if f.done {
		return
	}
	f.done = true
	r := f.r
	timedOut := func() bool { return !f.deadline.IsZero() && !time.Now().Before(f.deadline) }
	var tm *time.Timer
	if !f.deadline.IsZero() {
		tm = time.AfterFunc(time.Until(f.deadline), r.c.Sim.Poke)
	}
	simrt.WaitUntil("raft-future", func() bool { return r.applied >= f.idx || r.shutdown || timedOut() })
	if tm != nil {
		tm.Stop()
	}
	switch {
	case r.applied >= f.idx:
	case r.shutdown:
		f.err = ErrRaftShutdown
	default:
		f.err = ErrEnqueueTimeout
	}
}

func (f *applyFuture) Error() error          { f.wait(); return f.err }
func (f *applyFuture) Index() uint64         { return f.idx }
func (f *applyFuture) Response() interface{} { f.wait(); return f.r.resp[f.idx] }

func deadlineOf(timeout time.Duration) time.Time {
	if timeout <= 0 {
		return time.Time{}
	}
	return time.Now().Add(timeout)
}

// Apply commits a command: on the leader the entry enters the single committed log at once; the future
// completes when this node's FSM has applied it.
func (r *Raft) Apply(cmd []byte, timeout time.Duration) ApplyFuture {
	simrt.Yield("raft-apply")
	if r.shutdown {
		return errFuture{ErrRaftShutdown}
	}
	if r.c.Leader != r.id {
		return errFuture{r.notLeaderErr()}
	}
	if !r.c.canReachMajority(r) {
		r.c.Reevaluate()
		return errFuture{ErrLeadershipLost}
	}
	if r.c.FailApplies > 0 {
		r.c.FailApplies--
		r.c.Sim.Count("fault.raft_apply_failed")
		return errFuture{ErrEnqueueTimeout}
	}
	e := &Log{Index: r.c.CommitIndex() + 1, Term: r.c.Term, Type: LogCommand, Data: append([]byte(nil), cmd...), AppendedAt: time.Now()}
	r.c.Log = append(r.c.Log, e)
	cp := *e
	if err := r.logs.StoreLog(&cp); err != nil {
		panic(fmt.Sprintf("raft(sim): StoreLog: %v", err))
	}
	r.commit = e.Index
	r.applier.Wake()
	for _, n := range r.c.Nodes() {
		n.scheduleGrant()
	}
	return &applyFuture{r: r, idx: e.Index, deadline: deadlineOf(timeout)}
}

// notLeaderErr is what a call that needs leadership returns on a member that does not lead. A member
// that was told it leads and has lost leadership since (and has not been told yet) gets
// ErrLeadershipLost, as from hashicorp/raft's leader loop winding down. (liftbridge's leadership loop
// panics when it gets ErrNotLeader in that window and its LeadershipTransfer then fails as well; that
// is outside the properties checked here and is noted in DESIGN.md as an observation.)
func (r *Raft) notLeaderErr() error {
	if r.toldLeader {
		return ErrLeadershipLost
	}
	return ErrNotLeader
}

// Barrier completes when the FSM has applied everything committed so far.
func (r *Raft) Barrier(timeout time.Duration) Future {
	simrt.Yield("raft-barrier")
	if r.shutdown {
		return errFuture{ErrRaftShutdown}
	}
	if r.c.Leader != r.id {
		return errFuture{r.notLeaderErr()}
	}
	return &applyFuture{r: r, idx: r.c.CommitIndex(), deadline: deadlineOf(timeout)}
}

func (r *Raft) VerifyLeader() Future {
	if r.c.Leader != r.id {
		return errFuture{ErrNotLeader}
	}
	return errFuture{}
}

type confFuture struct {
	errFuture
	conf Configuration
}

func (c confFuture) Configuration() Configuration { return c.conf }

func (r *Raft) GetConfiguration() ConfigurationFuture {
	return confFuture{conf: Configuration{Servers: append([]Server(nil), r.c.Servers...)}}
}

func (r *Raft) BootstrapCluster(conf Configuration) Future {
	if len(r.c.Servers) == 0 {
		r.c.Servers = append([]Server(nil), conf.Servers...)
	} else {
		// other members bootstrapping with the same configuration: merge unknown servers
		for _, s := range conf.Servers {
			known := false
			for _, x := range r.c.Servers {
				if x.ID == s.ID {
					known = true
				}
			}
			if !known {
				r.c.Servers = append(r.c.Servers, s)
			}
		}
	}
	r.stable.SetUint64([]byte("CurrentTerm"), 1)
	r.c.maybeElect()
	return errFuture{}
}

func (r *Raft) addServer(id ServerID, addr ServerAddress, suffrage ServerSuffrage) IndexFuture {
	if r.c.Leader != r.id {
		return errFuture{ErrNotLeader}
	}
	for i, s := range r.c.Servers {
		if s.ID == id {
			r.c.Servers[i].Suffrage = suffrage
			return errFuture{}
		}
	}
	r.c.Servers = append(r.c.Servers, Server{ID: id, Address: addr, Suffrage: suffrage})
	sort.SliceStable(r.c.Servers, func(i, j int) bool { return r.c.Servers[i].ID < r.c.Servers[j].ID })
	return errFuture{}
}

func (r *Raft) AddVoter(id ServerID, addr ServerAddress, prevIndex uint64, timeout time.Duration) IndexFuture {
	return r.addServer(id, addr, Voter)
}
func (r *Raft) AddNonvoter(id ServerID, addr ServerAddress, prevIndex uint64, timeout time.Duration) IndexFuture {
	return r.addServer(id, addr, Nonvoter)
}
func (r *Raft) RemoveServer(id ServerID, prevIndex uint64, timeout time.Duration) IndexFuture {
	if r.c.Leader != r.id {
		return errFuture{ErrNotLeader}
	}
	for i, s := range r.c.Servers {
		if s.ID == id {
			r.c.Servers = append(r.c.Servers[:i:i], r.c.Servers[i+1:]...)
			break
		}
	}
	return errFuture{}
}

func (r *Raft) LeadershipTransfer() Future {
	if r.c.Leader != r.id {
		return errFuture{ErrNotLeader}
	}
	r.c.SetLeader("")
	return errFuture{}
}

func (r *Raft) Shutdown() Future {
	if !r.shutdown {
		r.shutdown = true
		if r.c.nodes[r.id] == r {
			r.dead = true
		}
		if r.applier != nil {
			r.applier.Wake()
		}
		if r.notifier != nil {
			r.notifier.Wake()
		}
		if r.c.Leader == r.id {
			r.c.Leader = ""
			r.c.maybeElect()
		}
	}
	return shutdownFuture{r}
}

// shutdownFuture waits, like hashicorp/raft's, until the member's goroutines are gone: no FSM call
// (Apply, Snapshot, Persist) is in progress or starts once Error has returned.
type shutdownFuture struct{ r *Raft }

func (f shutdownFuture) Error() error {
	r := f.r
	if t := simrt.Cur(); t != nil && t != r.applier {
		simrt.WaitUntil("raft-shutdown", func() bool { return (r.applierDone || r.applier == nil) && !r.snapBusy })
	}
	return nil
}

func (r *Raft) Snapshot() Future { r.RequestSnapshot(0); return errFuture{} }

// ID returns the member's server id.
func (r *Raft) ID() ServerID { return r.id }

// SimNode returns the simulation node the member runs on.
func (r *Raft) SimNode() int { return r.simNode }

var _ = bytes.Equal
var _ io.Reader

// NewManual returns a member that is driven by hand (FSM-level engine): no cluster, no tasks of its
// own. The caller stores committed entries in logs, moves the commit index with SetCommit and calls
// the FSM itself, the way the apply loop would.
func NewManual(id ServerID, logs LogStore) *Raft {
	return &Raft{c: &Cluster{nodes: map[ServerID]*Raft{}}, id: id, logs: logs, resp: map[uint64]interface{}{}}
}

// SetCommit sets the commit index this member reports.
func (r *Raft) SetCommit(i uint64) { r.commit = i }
