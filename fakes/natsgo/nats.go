// Package nats is the simulator-owned stand-in for github.com/nats-io/nats.go:
// the subset of the client API liftbridge uses, on top of an in-process bus whose
// every delivery is a scheduled, fault-injectable event of the simrt simulation.
//
// Guarantees kept (what core NATS gives): at most once; FIFO per (publishing
// connection, subscription); no delivery after Unsubscribe; a queue group
// delivers to one member; subject wildcards * and >. Nothing more: deliveries of
// different connections interleave in any order the decision stream picks.
package nats

import (
	"context"
	"crypto/tls"
	"errors"
	"fmt"
	"strings"
	"time"

	"verif.local/simrt"
)

// DefaultURL is the default server URL.
const DefaultURL = "nats://127.0.0.1:4222"

var (
	ErrTimeout          = errors.New("nats: timeout")
	ErrConnectionClosed = errors.New("nats: connection closed")
	ErrBadSubscription  = errors.New("nats: invalid subscription")
	ErrNoResponders     = errors.New("nats: no responders available for request")
)

// Msg is a message.
type Msg struct {
	Subject string
	Reply   string
	Data    []byte
	Sub     *Subscription
	conn    *Conn // receiving connection (for Respond)
}

// Respond publishes data on the message's reply subject.
func (m *Msg) Respond(data []byte) error {
	if m.Reply == "" {
		return errors.New("nats: message does not have a reply")
	}
	c := m.conn
	if c == nil && m.Sub != nil {
		c = m.Sub.conn
	}
	if c == nil {
		return ErrConnectionClosed
	}
	return c.Publish(m.Reply, data)
}

type (
	MsgHandler     func(*Msg)
	ConnHandler    func(*Conn)
	ErrHandler     func(*Conn, *Subscription, error)
	ConnErrHandler func(*Conn, error)
	Option         func(*Options) error
)

// Options mirrors the fields liftbridge touches.
type Options struct {
	Url                  string
	Servers              []string
	Name                 string
	User                 string
	Password             string
	Token                string
	Secure               bool
	TLSConfig            *tls.Config
	AllowReconnect       bool
	MaxReconnect         int
	ReconnectWait        time.Duration
	ReconnectBufSize     int
	Timeout              time.Duration
	PingInterval         time.Duration
	MaxPingsOut          int
	SubChanLen           int
	AsyncErrorCB         ErrHandler
	ReconnectedCB        ConnHandler
	ClosedCB             ConnHandler
	DisconnectedCB       ConnHandler
	DisconnectedErrCB    ConnErrHandler
	NoEcho               bool
	RetryOnFailedConnect bool
}

// GetDefaultOptions returns default options.
func GetDefaultOptions() Options {
	return Options{AllowReconnect: true, MaxReconnect: 60, ReconnectWait: 2 * time.Second, Timeout: 2 * time.Second, PingInterval: 2 * time.Minute, MaxPingsOut: 2, SubChanLen: 64 * 1024, ReconnectBufSize: 8 * 1024 * 1024}
}

func ErrorHandler(cb ErrHandler) Option {
	return func(o *Options) error { o.AsyncErrorCB = cb; return nil }
}
func ReconnectHandler(cb ConnHandler) Option {
	return func(o *Options) error { o.ReconnectedCB = cb; return nil }
}
func ClosedHandler(cb ConnHandler) Option {
	return func(o *Options) error { o.ClosedCB = cb; return nil }
}
func DisconnectHandler(cb ConnHandler) Option {
	return func(o *Options) error { o.DisconnectedCB = cb; return nil }
}

// ---- the bus ----------------------------------------------------------------

// Bus is the simulated NATS server of one simulation run.
type Bus struct {
	Sim    *simrt.Sim
	subs   []*Subscription
	conns  []*Conn
	nsub   int
	ninbox int
	// fault configuration (per mille), drawn per delivery from the decision stream
	DropPerMille  int
	DelayPerMille int
	MaxDelay      time.Duration
	// cut[a][b]: deliveries from node a to node b are lost
	cut map[[2]int]bool
	// Tap observes every publish (subject, data, source conn); used by harness monitors.
	Tap func(c *Conn, subject, reply string, data []byte)
	// Fault lets the harness decide the fate of one delivery: 0 deliver, 1 drop, >1 delay by that many ns.
	Fault                                func(src *Conn, dst *Subscription, m *Msg) int64
	Delivered, Dropped, Delayed, CutLost int
}

var bus *Bus

// NewBus installs a fresh bus for a simulation run.
func NewBus(s *simrt.Sim) *Bus {
	bus = &Bus{Sim: s, cut: map[[2]int]bool{}}
	return bus
}

// CurrentBus returns the installed bus.
func CurrentBus() *Bus { return bus }

// Cut drops everything sent from node a to node b until Heal.
func (b *Bus) Cut(a, c int)        { b.cut[[2]int{a, c}] = true }
func (b *Bus) Heal(a, c int)       { delete(b.cut, [2]int{a, c}) }
func (b *Bus) HealAll()            { b.cut = map[[2]int]bool{} }
func (b *Bus) IsCut(a, c int) bool { return b.cut[[2]int{a, c}] }

// CrashNode removes every connection (and so every subscription) of a node.
func (b *Bus) CrashNode(node int) {
	for _, c := range b.conns {
		if c.node == node && !c.closed {
			c.closed = true
			for _, s := range c.subs {
				s.closeLocked()
			}
		}
	}
}

// Subjects lists the subjects currently subscribed to by node (for fault targeting).
func (b *Bus) Subjects(node int) []string {
	var out []string
	for _, s := range b.subs {
		if !s.closed && s.conn.node == node {
			out = append(out, s.Subject)
		}
	}
	return out
}

func match(pattern, subject string) bool {
	if pattern == subject {
		return true
	}
	if !strings.ContainsAny(pattern, "*>") {
		return false
	}
	pt := strings.Split(pattern, ".")
	st := strings.Split(subject, ".")
	for i, p := range pt {
		if p == ">" {
			return i < len(st)
		}
		if i >= len(st) {
			return false
		}
		if p != "*" && p != st[i] {
			return false
		}
	}
	return len(pt) == len(st)
}

type delivery struct {
	m   *Msg
	src *Conn
	dst *Subscription
	ev  *simrt.Event
}

func (b *Bus) publish(c *Conn, subject, reply string, data []byte) {
	if b.Tap != nil {
		b.Tap(c, subject, reply, data)
	}
	// one copy per plain subscription, one per queue group
	groups := map[string][]*Subscription{}
	var order []string
	var targets []*Subscription
	for _, s := range b.subs {
		if s.closed || !match(s.Subject, subject) {
			continue
		}
		if s.Queue == "" {
			targets = append(targets, s)
			continue
		}
		if _, ok := groups[s.Queue]; !ok {
			order = append(order, s.Queue)
		}
		groups[s.Queue] = append(groups[s.Queue], s)
	}
	for _, q := range order {
		ms := groups[q]
		targets = append(targets, ms[b.Sim.Choose(len(ms), "queue-member")])
	}
	for _, s := range targets {
		m := &Msg{Subject: subject, Reply: reply, Data: append([]byte(nil), data...), Sub: s, conn: s.conn}
		b.enqueue(c, s, m)
	}
}

func (b *Bus) enqueue(src *Conn, dst *Subscription, m *Msg) {
	d := &delivery{m: m, src: src, dst: dst}
	var notBefore time.Time
	fate := int64(0)
	if b.Fault != nil {
		fate = b.Fault(src, dst, m)
	} else if src.node != dst.conn.node {
		if b.DropPerMille > 0 && b.Sim.Choose(1000, "drop") < b.DropPerMille {
			fate = 1
		} else if b.DelayPerMille > 0 && b.Sim.Choose(1000, "delay") < b.DelayPerMille {
			fate = 2 + int64(b.Sim.Choose(int(b.MaxDelay/time.Millisecond)+1, "delay-ms"))*int64(time.Millisecond)
		}
	}
	if fate == 1 {
		b.Dropped++
		b.Sim.Count("fault.msg_drop")
		return
	}
	if fate > 1 {
		b.Delayed++
		b.Sim.Count("fault.msg_delay")
		notBefore = time.Now().Add(time.Duration(fate))
	}
	key := src
	q := dst.pending[key]
	dst.pending[key] = append(q, d)
	d.ev = b.Sim.Post(&simrt.Event{
		Label:     "deliver " + m.Subject,
		Node:      dst.conn.node,
		NotBefore: notBefore,
		Ready: func() bool {
			q := dst.pending[key]
			return len(q) > 0 && q[0] == d // FIFO per (publishing connection, subscription)
		},
		Fire: func() {
			q := dst.pending[key]
			if len(q) == 0 || q[0] != d {
				return
			}
			dst.pending[key] = q[1:]
			if dst.closed {
				return
			}
			if b.cut[[2]int{src.node, dst.conn.node}] {
				b.CutLost++
				b.Sim.Count("fault.partition_loss")
				return
			}
			b.Delivered++
			dst.arrive(m)
		},
	})
}

// ---- connections ------------------------------------------------------------------

// Conn is a connection to the bus.
type Conn struct {
	Opts   Options
	bus    *Bus
	node   int
	closed bool
	subs   []*Subscription
	id     int
}

// Node is the simulation node the connection belongs to.
func (c *Conn) Node() int { return c.node }

// Connect connects to the installed bus; the connection belongs to the calling task's node.
func (o Options) Connect() (*Conn, error) {
	if bus == nil {
		return nil, errors.New("nats(sim): no bus installed")
	}
	node := 0
	if t := simrt.Cur(); t != nil {
		node = t.Node
	}
	c := &Conn{Opts: o, bus: bus, node: node, id: len(bus.conns) + 1}
	bus.conns = append(bus.conns, c)
	return c, nil
}

// Connect connects with default options (used by harness clients).
func Connect(url string, opts ...Option) (*Conn, error) {
	o := GetDefaultOptions()
	o.Url = url
	for _, f := range opts {
		if err := f(&o); err != nil {
			return nil, err
		}
	}
	return o.Connect()
}

func (c *Conn) LastError() error     { return nil }
func (c *Conn) ConnectedUrl() string { return DefaultURL }
func (c *Conn) IsClosed() bool       { return c.closed }
func (c *Conn) Flush() error {
	if c.closed {
		return ErrConnectionClosed
	}
	return nil
}
func (c *Conn) FlushTimeout(time.Duration) error { return c.Flush() }

// Close closes the connection and all its subscriptions.
func (c *Conn) Close() {
	if c.closed {
		return
	}
	c.closed = true
	for _, s := range c.subs {
		s.closeLocked()
	}
}

func (c *Conn) Publish(subject string, data []byte) error {
	return c.PublishRequest(subject, "", data)
}

func (c *Conn) PublishMsg(m *Msg) error { return c.PublishRequest(m.Subject, m.Reply, m.Data) }

func (c *Conn) PublishRequest(subject, reply string, data []byte) error {
	if c.closed {
		return ErrConnectionClosed
	}
	if subject == "" {
		return errors.New("nats: invalid subject")
	}
	simrt.Yield("nats-publish")
	c.bus.publish(c, subject, reply, data)
	return nil
}

func (c *Conn) newInbox() string {
	c.bus.ninbox++
	return fmt.Sprintf("_INBOX.sim.%d", c.bus.ninbox)
}

// NewInbox returns a unique inbox subject.
func NewInbox() string {
	bus.ninbox++
	return fmt.Sprintf("_INBOX.sim.%d", bus.ninbox)
}

func (c *Conn) Request(subject string, data []byte, timeout time.Duration) (*Msg, error) {
	ctx, cancel := context.WithTimeout(context.Background(), timeout)
	defer cancel()
	m, err := c.RequestWithContext(ctx, subject, data)
	if err == context.DeadlineExceeded {
		err = ErrTimeout
	}
	return m, err
}

func (c *Conn) RequestWithContext(ctx context.Context, subject string, data []byte) (*Msg, error) {
	inbox := c.newInbox()
	sub, err := c.SubscribeSync(inbox)
	if err != nil {
		return nil, err
	}
	defer sub.Unsubscribe()
	if err := c.PublishRequest(subject, inbox, data); err != nil {
		return nil, err
	}
	return sub.NextMsgWithContext(ctx)
}

func (c *Conn) Subscribe(subject string, cb MsgHandler) (*Subscription, error) {
	return c.subscribe(subject, "", cb)
}
func (c *Conn) QueueSubscribe(subject, queue string, cb MsgHandler) (*Subscription, error) {
	return c.subscribe(subject, queue, cb)
}
func (c *Conn) SubscribeSync(subject string) (*Subscription, error) {
	return c.subscribe(subject, "", nil)
}
func (c *Conn) QueueSubscribeSync(subject, queue string) (*Subscription, error) {
	return c.subscribe(subject, queue, nil)
}

func (c *Conn) subscribe(subject, queue string, cb MsgHandler) (*Subscription, error) {
	if c.closed {
		return nil, ErrConnectionClosed
	}
	if subject == "" {
		return nil, errors.New("nats: invalid subject")
	}
	b := c.bus
	b.nsub++
	s := &Subscription{Subject: subject, Queue: queue, conn: c, cb: cb, id: b.nsub, pending: map[*Conn][]*delivery{}, max: -1}
	c.subs = append(c.subs, s)
	b.subs = append(b.subs, s)
	if cb != nil {
		// one dispatcher per asynchronous subscription, as in the real client
		s.disp = b.Sim.GoNode(c.node, fmt.Sprintf("nats-sub%d:%s", s.id, subject), s.dispatch)
	}
	return s, nil
}

// ---- subscriptions -----------------------------------------------------------------

// Subscription is a subscription.
type Subscription struct {
	Subject string
	Queue   string
	conn    *Conn
	cb      MsgHandler
	id      int
	inbox   []*Msg
	pending map[*Conn][]*delivery
	closed  bool
	disp    *simrt.Task
	waiter  *simrt.Task
	max     int
	got     int
}

// Node is the simulation node of the subscriber.
func (s *Subscription) Node() int { return s.conn.node }

func (s *Subscription) arrive(m *Msg) {
	if s.closed {
		return
	}
	s.inbox = append(s.inbox, m)
	s.got++
	if s.max >= 0 && s.got >= s.max {
		// auto-unsubscribe: no further deliveries are accepted
		s.detach()
	}
	if s.disp != nil {
		s.disp.Wake()
	}
	if s.waiter != nil {
		s.waiter.Wake()
	}
}

// detach stops new deliveries but lets queued messages be consumed.
func (s *Subscription) detach() {
	b := s.conn.bus
	for i, x := range b.subs {
		if x == s {
			b.subs = append(b.subs[:i:i], b.subs[i+1:]...)
			break
		}
	}
	s.pending = map[*Conn][]*delivery{}
}

func (s *Subscription) closeLocked() {
	if s.closed {
		return
	}
	s.closed = true
	s.detach()
	s.inbox = nil
	if s.disp != nil {
		s.disp.Wake()
	}
	if s.waiter != nil {
		s.waiter.Wake()
	}
}

func (s *Subscription) dispatch() {
	t := simrt.Cur()
	for {
		for len(s.inbox) == 0 && !s.closed {
			t.WaitWake("nats-idle")
		}
		if s.closed {
			return
		}
		m := s.inbox[0]
		s.inbox = s.inbox[1:]
		s.cb(m)
	}
}

func (s *Subscription) Unsubscribe() error {
	if s.closed {
		return ErrBadSubscription
	}
	s.closeLocked()
	return nil
}

func (s *Subscription) Drain() error { return s.Unsubscribe() }

func (s *Subscription) AutoUnsubscribe(max int) error {
	if s.closed {
		return ErrBadSubscription
	}
	s.max = max
	if s.got >= max {
		s.detach()
	}
	return nil
}

func (s *Subscription) SetPendingLimits(int, int) error { return nil }
func (s *Subscription) IsValid() bool                   { return !s.closed }

func (s *Subscription) NextMsg(timeout time.Duration) (*Msg, error) {
	ctx, cancel := context.WithTimeout(context.Background(), timeout)
	defer cancel()
	m, err := s.NextMsgWithContext(ctx)
	if err == context.DeadlineExceeded {
		err = ErrTimeout
	}
	return m, err
}

func (s *Subscription) NextMsgWithContext(ctx context.Context) (*Msg, error) {
	if s.cb != nil {
		return nil, errors.New("nats: illegal call on an async subscription")
	}
	t := simrt.Cur()
	if t == nil {
		return nil, errors.New("nats(sim): NextMsg outside a simulated task")
	}
	sim := t.Sim()
	if len(s.inbox) == 0 && !s.closed && ctx.Err() == nil {
		// wake the driver when the context ends so that the wait condition is re-evaluated
		stop := context.AfterFunc(ctx, sim.Poke)
		simrt.WaitUntil("nats-nextmsg", func() bool { return len(s.inbox) > 0 || s.closed || ctx.Err() != nil })
		stop()
	} else {
		simrt.Yield("nats-nextmsg")
	}
	if len(s.inbox) > 0 {
		m := s.inbox[0]
		s.inbox = s.inbox[1:]
		return m, nil
	}
	if s.closed {
		if s.conn.closed {
			return nil, ErrConnectionClosed
		}
		return nil, ErrBadSubscription
	}
	if ctx.Err() == nil {
		panic(fmt.Sprintf("nats(sim): NextMsg woke without a message, a close or a deadline (sub %s)", s.Subject))
	}
	return nil, ctx.Err()
}
