module github.com/natefinch/atomic

go 1.25.3

require verif.local/simrt v0.0.0

replace verif.local/simrt => ../../simrt
