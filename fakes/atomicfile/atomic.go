// Package atomic is natefinch/atomic v1.0.1 (WriteFile, ReplaceFile; unix) with the
// simulator's file-system crash points between its effects: temp file created, temp
// file written, temp file renamed over the target. Everything else is the original
// code; the statements are in the original order.
package atomic

import (
	"fmt"
	"io"
	"io/ioutil"
	"os"
	"path/filepath"

	"verif.local/simrt"
)

// WriteFile atomically writes the contents of r to the specified filepath.  If
// an error occurs, the target file is guaranteed to be either fully written, or
// not written at all.  WriteFile overwrites any file that exists at the
// location (but only if the write fully succeeds, otherwise the existing file
// is unmodified).
func WriteFile(filename string, r io.Reader) (err error) {
	// write to a temp file first, then we'll atomically replace the target file
	// with the temp file.
	dir, file := filepath.Split(filename)
	if dir == "" {
		dir = "."
	}

	simrt.FS("atomic.WriteFile:create-temp")
	f, err := ioutil.TempFile(dir, file)
	if err != nil {
		return fmt.Errorf("cannot create temp file: %v", err)
	}
	defer func() {
		if err != nil {
			// Don't leave the temp file lying around on error.
			_ = os.Remove(f.Name()) // yes, ignore the error, not much we can do about it.
		}
	}()
	// ensure we always close f. Note that this does not conflict with  the
	// close below, as close is idempotent.
	defer f.Close()
	name := f.Name()
	simrt.FS("atomic.WriteFile:write-temp")
	if _, err := io.Copy(f, r); err != nil {
		return fmt.Errorf("cannot write data to tempfile %q: %v", name, err)
	}
	// fsync is important, otherwise os.Rename could rename a zero-length file
	if err := f.Sync(); err != nil {
		return fmt.Errorf("can't flush tempfile %q: %v", name, err)
	}
	if err := f.Close(); err != nil {
		return fmt.Errorf("can't close tempfile %q: %v", name, err)
	}

	// get the file mode from the original file and use that for the replacement
	// file, too.
	destInfo, err := os.Stat(filename)
	if os.IsNotExist(err) {
		// no original file
	} else if err != nil {
		return err
	} else {
		sourceInfo, err := os.Stat(name)
		if err != nil {
			return err
		}

		if sourceInfo.Mode() != destInfo.Mode() {
			if err := os.Chmod(name, destInfo.Mode()); err != nil {
				return fmt.Errorf("can't set filemode on tempfile %q: %v", name, err)
			}
		}
	}
	simrt.FS("atomic.WriteFile:rename")
	if err := ReplaceFile(name, filename); err != nil {
		return fmt.Errorf("cannot replace %q with tempfile %q: %v", filename, name, err)
	}
	return nil
}

// ReplaceFile atomically replaces the destination file or directory with the
// source.  It is guaranteed to either replace the target file entirely, or not
// change either file.
func ReplaceFile(source, destination string) error {
	return os.Rename(source, destination)
}
