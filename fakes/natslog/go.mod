module github.com/liftbridge-io/nats-on-a-log

go 1.25.3

require (
	github.com/hashicorp/raft v0.0.0
	github.com/nats-io/nats.go v0.0.0
)

replace github.com/hashicorp/raft => ../raft

replace github.com/nats-io/nats.go => ../natsgo

replace verif.local/simrt => ../../simrt
