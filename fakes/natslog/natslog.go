// Package natslog is the simulator-owned stand-in for nats-on-a-log: the Raft stub
// needs no transport, so this returns an inert handle.
package natslog

import (
	"io"
	"time"

	"github.com/hashicorp/raft"
	"github.com/nats-io/nats.go"
)

// NewNATSTransport returns an inert transport.
func NewNATSTransport(id, subjectPrefix string, conn *nats.Conn, timeout time.Duration, logOutput io.Writer) (*raft.NetworkTransport, error) {
	return &raft.NetworkTransport{}, nil
}
