module github.com/nats-io/nuid

go 1.25.3
