// Package nuid is the simulator-owned stand-in for github.com/nats-io/nuid:
// deterministic identifiers (a counter), reset at the start of every run.
package nuid

import "fmt"

var n uint64

// Reset restarts the sequence.
func Reset() { n = 0 }

// Next returns the next identifier.
func Next() string {
	n++
	return fmt.Sprintf("SIM%019d", n)
}

// NUID mirrors the generator type of the real package.
type NUID struct{}

// New returns a generator.
func New() *NUID { return &NUID{} }

// Next returns the next identifier.
func (*NUID) Next() string { return Next() }

// RandomizePrefix is a no-op.
func (*NUID) RandomizePrefix() {}
